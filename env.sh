# source this: toolchain for govc and for /repo (go1.25.5 cached as a toolchain module)
export GOFLAGS=-mod=mod GOPROXY=off GOSUMDB=off GOTOOLCHAIN=local
_gr=$(ls -d /root/go/pkg/mod/golang.org/toolchain@v0.0.1-go1.25.5.linux-amd64 2>/dev/null)
if [ -n "$_gr" ]; then export GOROOT="$_gr"; export PATH="$_gr/bin:$PATH"; fi
