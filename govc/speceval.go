package main

import (
	"fmt"
	"go/constant"
	"go/types"
	"strconv"
	"strings"

	"golang.org/x/tools/go/ssa"
)

// NilV is the untyped nil of the contract language.
type NilV struct{}

type specCtx struct {
	g           *Gen
	st          *State
	old         *State
	binds       map[string]Val // callee formals -> actuals
	bound       map[string]Val // quantifier variables
	results     []Val
	resultNames []string
	entryNames  bool         // identifiers denote entry values of parameters (requires / old)
	calleeOnly  bool         // contract of another function: only binds, results and ghosts are visible
	oldIsPre    bool         // old() refers to ctx.old as a whole (pre-call state) and keeps caller locals
	paramsEntry bool         // postconditions: parameter names denote their values at entry
	pkg         *ssa.Package // package whose scope resolves package-level names (the contract's own package)
}

// evalAssume / evalGoal: top-level evaluation of a contract formula.  Type-system facts about the
// values the formula reads from the heap (slice lengths >= 0, byte ranges, ...) are added as
// conjuncts when the formula is assumed and as hypotheses when it is to be proved.
func (g *Gen) evalAssume(ctx *specCtx, e Expr) string {
	save := g.specFacts
	g.specFacts = nil
	t := g.evalBool(ctx, e)
	f := g.specFacts
	g.specFacts = save
	return and(append(f, t)...)
}

func (g *Gen) evalGoal(ctx *specCtx, e Expr) string {
	save := g.specFacts
	g.specFacts = nil
	t := g.evalBool(ctx, e)
	f := g.specFacts
	g.specFacts = save
	return implies(and(f...), t)
}

func (g *Gen) specFact(v Val, t types.Type) {
	if g.inQuant > 0 {
		return // facts about terms under a binder cannot be hoisted
	}
	if inv := g.typeInv(v, t); inv != "true" {
		g.specFacts = append(g.specFacts, inv)
	}
}

func (g *Gen) evalBool(ctx *specCtx, e Expr) string {
	v := g.evalSpec(ctx, e)
	b, ok := v.(BoolV)
	if !ok {
		g.unsupported("contract expression is not boolean: " + exprString(e))
	}
	return b.T
}

func (g *Gen) evalInt(ctx *specCtx, e Expr) string {
	v := g.evalSpec(ctx, e)
	switch x := v.(type) {
	case IntV:
		return x.T
	}
	g.unsupported("contract expression is not an integer: " + exprString(e))
	return ""
}

func (c *specCtx) withBound(name string, v Val) *specCtx {
	n := *c
	n.bound = map[string]Val{}
	for k, x := range c.bound {
		n.bound[k] = x
	}
	n.bound[name] = v
	return &n
}

func (g *Gen) evalSpec(ctx *specCtx, e Expr) Val {
	switch x := e.(type) {
	case *ENum:
		return IntV{g.specNum(x.V)}
	case *EStr:
		return g.strLit(x.S)
	case *EIdent:
		return g.evalIdent(ctx, x.Name)
	case *EUnary:
		switch x.Op {
		case "!":
			return BoolV{not(g.evalBool(ctx, x.X))}
		case "-":
			if g.bv {
				return IntV{"(bvneg " + g.evalInt(ctx, x.X) + ")"}
			}
			return IntV{"(- " + g.evalInt(ctx, x.X) + ")"}
		case "*":
			p, ok := g.evalSpec(ctx, x.X).(PtrV)
			if !ok {
				g.unsupported("deref of non-pointer in contract")
			}
			return g.specLoad(ctx, p)
		}
	case *EBin:
		return g.evalBin(ctx, x)
	case *EIndex:
		base := g.evalSpec(ctx, x.X)
		i := g.evalInt(ctx, x.I)
		switch b := base.(type) {
		case SliceV:
			return g.specLoad(ctx, PtrV{RootKey: typeKey(b.Elem), Ref: b.Ref, Idx: g.elemIdx(b.Off, i), Elem: b.Elem})
		case StrV:
			return IntV{"(select " + b.Arr + " " + g.elemIdx(b.Off, i) + ")"}
		case ArrV:
			return g.cellGet(b, []pstep{{Idx: i}})
		}
		g.unsupported("index of " + fmt.Sprintf("%T", base) + " in contract")
	case *ESlice:
		base := g.evalSpec(ctx, x.X)
		lo := "0"
		if x.Lo != nil {
			lo = g.evalInt(ctx, x.Lo)
		}
		switch b := base.(type) {
		case SliceV:
			hi := b.Len
			if x.Hi != nil {
				hi = g.evalInt(ctx, x.Hi)
			}
			return SliceV{Ref: b.Ref, Off: g.add(b.Off, lo), Len: g.sub(hi, lo), Cap: g.sub(b.Cap, lo), Elem: b.Elem}
		case StrV:
			hi := b.Len
			if x.Hi != nil {
				hi = g.evalInt(ctx, x.Hi)
			}
			return StrV{b.Arr, g.add(b.Off, lo), g.sub(hi, lo)}
		}
		g.unsupported("slice expression on non-slice in contract")
	case *ESel:
		return g.evalSel(ctx, x)
	case *ECall:
		return g.evalCall(ctx, x)
	case *EQuant:
		c2 := ctx
		var decl []string
		for i, v := range x.Vars {
			g.nfresh++
			n := fmt.Sprintf("%s!q%d", v, g.nfresh)
			sort := "Int"
			var val Val = IntV{n}
			if x.Sorts[i] == "bool" {
				sort = "Bool"
				val = BoolV{n}
			}
			if g.bv && x.Sorts[i] == "int" {
				sort = "(_ BitVec 64)"
			}
			decl = append(decl, "("+n+" "+sort+")")
			c2 = c2.withBound(v, val)
		}
		g.inQuant++
		body := g.evalBool(c2, x.Body)
		g.inQuant--
		q := "exists"
		if x.All {
			q = "forall"
		}
		return BoolV{"(" + q + " (" + strings.Join(decl, " ") + ") " + body + ")"}
	}
	g.unsupported("contract expression " + exprString(e))
	return nil
}

func (g *Gen) specNum(s string) string {
	if g.bv {
		u, _ := strconv.ParseUint(s, 10, 64)
		return fmt.Sprintf("(_ bv%d 64)", u)
	}
	return s
}

func (g *Gen) specLoad(ctx *specCtx, p PtrV) Val {
	if p.Cell != nil {
		v, ok := ctx.st.cells[p.Cell]
		if !ok {
			g.unsupported("contract reads unallocated local " + p.Cell.Comment)
		}
		return g.cellGet(v, p.CPath)
	}
	v := g.loadHeap(ctx.st, p)
	g.specFact(v, p.Elem)
	return v
}

func (g *Gen) evalIdent(ctx *specCtx, name string) Val {
	switch name {
	case "true":
		return BoolV{"true"}
	case "false":
		return BoolV{"false"}
	case "nil":
		return NilV{}
	}
	if v, ok := ctx.bound[name]; ok {
		return v
	}
	// result names declared by the clause shadow formals of the same name
	for i, n := range ctx.resultNames {
		if n == name && n != "_" && n != "" && i < len(ctx.results) {
			return ctx.results[i]
		}
	}
	if v, ok := ctx.binds[name]; ok {
		return v
	}
	if ctx.results != nil || ctx.resultNames != nil {
		if name == "result" && len(ctx.results) >= 1 {
			return ctx.results[0]
		}
		if strings.HasPrefix(name, "result") {
			if i, err := strconv.Atoi(name[6:]); err == nil && i < len(ctx.results) {
				return ctx.results[i]
			}
		}
		for i, n := range ctx.resultNames {
			if n == name && n != "_" && n != "" && i < len(ctx.results) {
				return ctx.results[i]
			}
		}
	}
	if v, ok := ctx.st.ghosts[name]; ok {
		return v
	}
	if ctx.calleeOnly {
		if v, ok := g.pkgLevel(ctx, name); ok {
			return v
		}
		g.unsupported("unknown identifier " + name + " in callee contract")
	}
	// inside a helper that was carved out of the function under contract the inherited clauses were written for that
	// function: its parameters and locals come first (a helper's receiver `l` is not the root's `l`)
	if len(g.outerScopes) > 0 && !ctx.entryNames {
		sc := g.outerScopes[0]
		b0, k0 := name, 1
		if i := strings.Index(name, "#"); i > 0 {
			b0 = name[:i]
			k0, _ = strconv.Atoi(name[i+1:])
		}
		if as := sc.localNames[b0]; len(as) >= k0 {
			a := as[k0-1]
			if !sc.escaping[a] {
				if v, ok := ctx.st.cells[a]; ok {
					return v
				}
			} else if pr, ok := ctx.st.regs[a].(PtrV); ok {
				return g.loadHeap(ctx.st, pr)
			}
		}
		if v, ok := sc.paramVals[name]; ok {
			return v
		}
	}
	if g.freeVarNames[name] {
		// captured variable: the closure holds a pointer to it; contracts name the variable itself
		if pv, ok := g.paramVals[name].(PtrV); ok {
			if _, isLocal := g.localNames[name]; !isLocal {
				return g.specLoad(ctx, pv)
			}
		}
	}
	if ctx.entryNames || ctx.paramsEntry {
		if v, ok := g.paramVals[name]; ok {
			return v
		}
	}
	// local by name (name#k picks the k-th declaration)
	base, k := name, 1
	if i := strings.Index(name, "#"); i > 0 {
		base = name[:i]
		k, _ = strconv.Atoi(name[i+1:])
	}
	if as := g.localNames[base]; len(as) >= k && !ctx.entryNames {
		a := as[k-1]
		if !g.escaping[a] {
			if v, ok := ctx.st.cells[a]; ok {
				return v
			}
			if pv, ok := g.paramVals[base]; ok {
				return pv
			}
			// not declared yet on this path: a local reads as its zero value before its declaration
			return g.zeroVal(a.Type().(*types.Pointer).Elem())
		}
		if pr, ok := ctx.st.regs[a].(PtrV); ok {
			return g.loadHeap(ctx.st, pr)
		}
		if pr, ok := g.regs[a].(PtrV); ok {
			return g.loadHeap(ctx.st, pr)
		}
		if pv, ok := g.paramVals[base]; ok {
			return pv
		}
		g.unsupported("contract mentions escaping local " + name + " before its declaration")
	}
	if v, ok := g.paramVals[name]; ok {
		return v
	}
	if v, ok := g.pkgLevel(ctx, name); ok {
		return v
	}
	// inside a helper that was carved out of the function under contract: names of the enclosing function
	for i := len(g.outerScopes) - 1; i >= 0; i-- {
		sc := g.outerScopes[i]
		if as := sc.localNames[base]; len(as) >= k {
			a := as[k-1]
			if !sc.escaping[a] {
				if v, ok := ctx.st.cells[a]; ok {
					return v
				}
			} else if pr, ok := ctx.st.regs[a].(PtrV); ok {
				return g.loadHeap(ctx.st, pr)
			}
		}
		if v, ok := sc.paramVals[name]; ok {
			return v
		}
	}
	g.unsupported("unknown identifier " + name + " in contract")
	return nil
}

// pkgLevel resolves package-level constants and variables of the function's package.
func (g *Gen) pkgLevel(ctx *specCtx, name string) (Val, bool) {
	pkg := g.fn.Pkg
	if ctx.pkg != nil {
		pkg = ctx.pkg
	}
	if pkg == nil {
		return nil, false
	}
	obj := pkg.Pkg.Scope().Lookup(name)
	switch o := obj.(type) {
	case *types.Const:
		return g.constToVal(o.Val(), o.Type())
	case *types.Var:
		if gl, ok := pkg.Members[name].(*ssa.Global); ok {
			p := PtrV{RootKey: "G:" + gl.Pkg.Pkg.Path() + "." + gl.Name(), Ref: "1", Idx: "0", Elem: gl.Type().(*types.Pointer).Elem()}
			return g.loadHeap(ctx.st, p), true
		}
	}
	return nil, false
}

func (g *Gen) constToVal(cv constant.Value, t types.Type) (Val, bool) {
	switch cv.Kind() {
	case constant.Int:
		s := cv.ExactString()
		if g.bv {
			if i, ok := constant.Int64Val(cv); ok {
				return IntV{g.pnum(i)}, true
			}
			u, _ := constant.Uint64Val(cv)
			return IntV{fmt.Sprintf("(_ bv%d 64)", u)}, true
		}
		if strings.HasPrefix(s, "-") {
			return IntV{"(- " + s[1:] + ")"}, true
		}
		return IntV{s}, true
	case constant.Bool:
		if constant.BoolVal(cv) {
			return BoolV{"true"}, true
		}
		return BoolV{"false"}, true
	case constant.String:
		return g.strLit(constant.StringVal(cv)), true
	}
	return nil, false
}

func (g *Gen) evalSel(ctx *specCtx, x *ESel) Val {
	// qualified package-level constant: pkg.Name
	if id, ok := x.X.(*EIdent); ok {
		if _, isBound := ctx.bound[id.Name]; !isBound {
			if _, isBind := ctx.binds[id.Name]; !isBind {
				if v, ok := g.qualified(ctx, id.Name, x.F); ok {
					return v
				}
			}
		}
	}
	base := g.evalSpec(ctx, x.X)
	// pointer to pointer (captured variable holding a pointer): follow it
	if pb, ok := base.(PtrV); ok {
		if _, isPP := pb.Elem.Underlying().(*types.Pointer); isPP {
			if inner, ok := g.specLoad(ctx, pb).(PtrV); ok {
				base = inner
			}
		}
	}
	// promoted field of an embedded struct: rewrite x.f as x.Embedded.f
	if emb := promotedVia(baseStructType(base), x.F); emb != "" {
		return g.evalSel(ctx, &ESel{X: &ESel{X: x.X, F: emb}, F: x.F})
	}
	switch b := base.(type) {
	case PtrV:
		if b.Cell != nil {
			v := g.specLoad(ctx, b)
			if sv, ok := v.(StructV); ok {
				if i, _, ok := structFieldIndex(sv.T, x.F); ok {
					return sv.F[i]
				}
			}
			g.unsupported("field " + x.F + " of local pointer")
		}
		if i, ft, ok := structFieldIndex(b.Elem, x.F); ok {
			np := b
			np.Steps = append(append([]pstep(nil), b.Steps...), pstep{Field: i, Name: x.F})
			np.Elem = ft
			lv := g.loadHeap(ctx.st, np)
			g.specFact(lv, ft)
			return lv
		}
		// ghost field
		if gf := g.W.ghostField(b.Elem, x.F); gf != nil {
			key := heapKey(b.RootKey, b.Steps, "!"+x.F)
			srt := "Int"
			if gf.Sort == "bool" {
				srt = "Bool"
			}
			h := g.heapTerm(ctx.st, key, nestSort(2, srt))
			t := nestSelect(h, []string{b.Ref, b.Idx})
			if gf.Sort == "bool" {
				return BoolV{t}
			}
			return IntV{t}
		}
		g.unsupported("no field " + x.F + " in " + b.Elem.String())
	case StructV:
		if i, _, ok := structFieldIndex(b.T, x.F); ok {
			return b.F[i]
		}
		g.unsupported("no field " + x.F + " in struct value")
	case IfaceV:
		switch x.F {
		case "tag":
			return IntV{b.Tag}
		case "pay":
			return IntV{b.Pay}
		}
		// an interface whose dynamic value is statically known (e.g. a result built as &T{...}): fields of that value
		if pv, ok := b.Conc.(PtrV); ok && pv.Cell == nil {
			if i, ft, ok := structFieldIndex(pv.Elem, x.F); ok {
				np := pv
				np.Steps = append(append([]pstep(nil), pv.Steps...), pstep{Field: i, Name: x.F})
				np.Elem = ft
				lv := g.loadHeap(ctx.st, np)
				g.specFact(lv, ft)
				return lv
			}
		}
		if b.Conc == nil && g.rootFn != nil && g.rootFn.Pkg != nil {
			// dynamic value unknown on this path (typically the nil interface of an error return): the field of the
			// only struct type of the package that has it, unconstrained - the clause must guard its use itself
			var ft types.Type
			n := 0
			sc := g.rootFn.Pkg.Pkg.Scope()
			for _, name := range sc.Names() {
				if tn, ok := sc.Lookup(name).(*types.TypeName); ok {
					if _, t, ok := structFieldIndex(tn.Type(), x.F); ok {
						if ft != nil && types.Identical(ft.Underlying(), t.Underlying()) {
							continue // same representation: either will do for an unconstrained value
						}
						ft = t
						n++
					}
				}
			}
			if n == 1 {
				v, _ := g.freshVal(ft, "dynfield_"+x.F)
				return v
			}
		}
	case SliceV:
		switch x.F {
		case "ref":
			return IntV{b.Ref}
		case "off":
			return IntV{b.Off}
		}
	}
	g.unsupported("selector ." + x.F + " on " + fmt.Sprintf("%T", base))
	return nil
}

func (g *Gen) qualified(ctx *specCtx, pkgName, name string) (Val, bool) {
	if g.fn.Pkg == nil {
		return nil, false
	}
	for _, imp := range g.fn.Pkg.Pkg.Imports() {
		if imp.Name() == pkgName {
			switch o := imp.Scope().Lookup(name).(type) {
			case *types.Const:
				return g.constToVal(o.Val(), o.Type())
			case *types.Var:
				p := PtrV{RootKey: "G:" + imp.Path() + "." + name, Ref: "1", Idx: "0", Elem: o.Type()}
				return g.loadHeap(ctx.st, p), true
			}
		}
	}
	return nil, false
}

func (g *Gen) seqAt(ctx *specCtx, v Val, i string) string {
	switch b := v.(type) {
	case SliceV:
		x := g.specLoad(ctx, PtrV{RootKey: typeKey(b.Elem), Ref: b.Ref, Idx: g.elemIdx(b.Off, i), Elem: b.Elem})
		if iv, ok := x.(IntV); ok {
			return iv.T
		}
		if bv, ok := x.(BoolV); ok {
			return bv.T
		}
		g.unsupported("sequence of non-scalar elements")
	case StrV:
		return "(select " + b.Arr + " " + g.elemIdx(b.Off, i) + ")"
	}
	g.unsupported(fmt.Sprintf("not a sequence: %T", v))
	return ""
}

func (g *Gen) seqBlockOpt(ctx *specCtx, v Val) (blk, off, l string, ok bool) {
	switch b := v.(type) {
	case SliceV:
		if len(g.leaves(b.Elem)) != 1 {
			return "", "", "", false
		}
	case StrV:
	default:
		return "", "", "", false
	}
	blk, off, l = g.seqBlock(ctx, v)
	return blk, off, l, true
}

// seqBlock returns (inner array term, offset, length) of a byte/int sequence.
func (g *Gen) seqBlock(ctx *specCtx, v Val) (blk, off, l string) {
	switch b := v.(type) {
	case SliceV:
		lv := g.leaves(b.Elem)
		if len(lv) != 1 {
			g.unsupported("sequence predicate on slice of non-scalars")
		}
		h := g.heapTerm(ctx.st, heapKey(typeKey(b.Elem), nil, lv[0].suffix), nestSort(2, lv[0].sort))
		return g.nameTerm("(select "+h+" "+b.Ref+")", "(Array Int "+lv[0].sort+")"), b.Off, b.Len
	case StrV:
		return b.Arr, b.Off, b.Len
	}
	g.unsupported(fmt.Sprintf("not a sequence: %T", v))
	return
}

// nameTerm introduces a constant equal to term (so that it can appear in patterns).
func (g *Gen) nameTerm(term, sort string) string {
	if !strings.ContainsAny(term, " (") || g.inQuant > 0 {
		return term // (under a binder the term may mention bound variables: it cannot be named globally)
	}
	n := g.fresh("t", sort)
	g.emit("(assert (= " + n + " " + term + "))")
	return n
}

func seqLen(v Val) (string, bool) {
	switch b := v.(type) {
	case SliceV:
		return b.Len, true
	case StrV:
		return b.Len, true
	}
	return "", false
}

func (g *Gen) evalCall(ctx *specCtx, x *ECall) Val {
	arg := func(i int) Val { return g.evalSpec(ctx, x.Args[i]) }
	switch x.Fn {
	case "old":
		var c2 specCtx
		if ctx.oldIsPre {
			c2 = *ctx
			c2.st = ctx.old
		} else {
			c2 = specCtx{g: g, st: ctx.old, old: ctx.old, binds: ctx.binds, bound: ctx.bound, entryNames: true, calleeOnly: ctx.calleeOnly}
		}
		return g.evalSpec(&c2, x.Args[0])
	case "len":
		v := arg(0)
		if l, ok := seqLen(v); ok {
			return IntV{l}
		}
		if a, ok := v.(ArrV); ok {
			return IntV{fmt.Sprint(a.N)}
		}
		if r, ok := v.(RefV); ok {
			return IntV{g.mapLen(ctx.st, r.T)}
		}
		g.unsupported("len of " + fmt.Sprintf("%T", v))
	case "cap":
		if s, ok := arg(0).(SliceV); ok {
			return IntV{s.Cap}
		}
		g.unsupported("cap of non-slice")
	case "ref":
		switch v := arg(0).(type) {
		case SliceV:
			return IntV{v.Ref}
		case PtrV:
			return IntV{v.Ref}
		case RefV:
			return IntV{v.T}
		}
		g.unsupported("ref() of non-reference")
	case "off":
		switch v := arg(0).(type) {
		case SliceV:
			return IntV{v.Off}
		case PtrV:
			return IntV{v.Idx}
		case StrV:
			return IntV{v.Off}
		}
		g.unsupported("off() of non-slice")
	case "seqeq":
		// seqeq(s, a, off): s[k] == a[off+k] for all k < len(s); quantified over the absolute index of s's block
		s, a := arg(0), arg(1)
		off := "0"
		if len(x.Args) > 2 {
			off = g.evalInt(ctx, x.Args[2])
		}
		blk, so, l := g.seqBlock(ctx, s)
		g.nfresh++
		j := fmt.Sprintf("j!q%d", g.nfresh)
		g.inQuant++
		rhs := g.seqAt(ctx, a, "(+ "+off+" (- "+j+" "+so+"))")
		g.inQuant--
		f1 := fmt.Sprintf("(forall ((%s Int)) (! (=> (and (<= %s %s) (< %s (+ %s %s))) (= (select %s %s) %s)) :pattern ((select %s %s))))", j, so, j, j, so, l, blk, j, rhs, blk, j)
		// the same statement indexed from a's side, so that terms over a trigger it too
		if ablk, ao, _, ok := g.seqBlockOpt(ctx, a); ok && ablk != blk {
			g.nfresh++
			k := fmt.Sprintf("k!q%d", g.nfresh)
			base := "(+ " + ao + " " + off + ")"
			f2 := fmt.Sprintf("(forall ((%s Int)) (! (=> (and (<= %s %s) (< %s (+ %s %s))) (= (select %s (+ %s (- %s %s))) (select %s %s))) :pattern ((select %s %s))))", k, base, k, k, base, l, blk, so, k, base, ablk, k, ablk, k)
			return BoolV{"(and " + f1 + " " + f2 + ")"}
		}
		return BoolV{f1}
	case "nochr":
		s := arg(0)
		c := g.evalInt(ctx, x.Args[1])
		blk, so, l := g.seqBlock(ctx, s)
		g.nfresh++
		j := fmt.Sprintf("j!q%d", g.nfresh)
		return BoolV{fmt.Sprintf("(forall ((%s Int)) (! (=> (and (<= %s %s) (< %s (+ %s %s))) (not (= (select %s %s) %s))) :pattern ((select %s %s))))", j, so, j, j, so, l, blk, j, c, blk, j)}
	case "increasing":
		// increasing(s): strictly increasing integer sequence
		s := arg(0)
		blk, so, l := g.seqBlock(ctx, s)
		g.nfresh++
		j1, j2 := fmt.Sprintf("j!q%da", g.nfresh), fmt.Sprintf("j!q%db", g.nfresh)
		return BoolV{fmt.Sprintf("(forall ((%s Int) (%s Int)) (! (=> (and (<= %s %s) (< %s %s) (< %s (+ %s %s))) (< (select %s %s) (select %s %s))) :pattern ((select %s %s) (select %s %s))))", j1, j2, so, j1, j1, j2, j2, so, l, blk, j1, blk, j2, blk, j1, blk, j2)}
	case "distinct":
		// distinct(s): pairwise different elements
		s := arg(0)
		blk, so, l := g.seqBlock(ctx, s)
		g.nfresh++
		j1, j2 := fmt.Sprintf("j!q%da", g.nfresh), fmt.Sprintf("j!q%db", g.nfresh)
		return BoolV{fmt.Sprintf("(forall ((%s Int) (%s Int)) (! (=> (and (<= %s %s) (< %s %s) (< %s (+ %s %s))) (not (= (select %s %s) (select %s %s)))) :pattern ((select %s %s) (select %s %s))))", j1, j2, so, j1, j1, j2, j2, so, l, blk, j1, blk, j2, blk, j1, blk, j2)}
	case "nondecreasing":
		s := arg(0)
		blk, so, l := g.seqBlock(ctx, s)
		g.nfresh++
		j1, j2 := fmt.Sprintf("j!q%da", g.nfresh), fmt.Sprintf("j!q%db", g.nfresh)
		return BoolV{fmt.Sprintf("(forall ((%s Int) (%s Int)) (! (=> (and (<= %s %s) (< %s %s) (< %s (+ %s %s))) (<= (select %s %s) (select %s %s))) :pattern ((select %s %s) (select %s %s))))", j1, j2, so, j1, j1, j2, j2, so, l, blk, j1, blk, j2, blk, j1, blk, j2)}
	case "allrange":
		// allrange(s, lo, hi): lo <= s[k] < hi for all k
		s := arg(0)
		lo, hi := g.evalInt(ctx, x.Args[1]), g.evalInt(ctx, x.Args[2])
		blk, so, l := g.seqBlock(ctx, s)
		g.nfresh++
		j := fmt.Sprintf("j!q%d", g.nfresh)
		return BoolV{fmt.Sprintf("(forall ((%s Int)) (! (=> (and (<= %s %s) (< %s (+ %s %s))) (and (<= %s (select %s %s)) (< (select %s %s) %s))) :pattern ((select %s %s))))", j, so, j, j, so, l, lo, blk, j, blk, j, hi, blk, j)}
	case "allchr":
		// allchr(s, lo, hi): every byte c of s satisfies lo <= c <= hi
		s := arg(0)
		lo, hi := g.evalInt(ctx, x.Args[1]), g.evalInt(ctx, x.Args[2])
		blk, so, l := g.seqBlock(ctx, s)
		g.nfresh++
		j := fmt.Sprintf("j!q%d", g.nfresh)
		return BoolV{fmt.Sprintf("(forall ((%s Int)) (! (=> (and (<= %s %s) (< %s (+ %s %s))) (and (<= %s (select %s %s)) (<= (select %s %s) %s))) :pattern ((select %s %s))))", j, so, j, j, so, l, lo, blk, j, blk, j, hi, blk, j)}
	case "unchanged":
		// unchanged(s): the elements of s hold what they held in the old state
		sv, ok := arg(0).(SliceV)
		if !ok {
			g.unsupported("unchanged() of non-slice")
		}
		lv := g.leaves(sv.Elem)
		if len(lv) != 1 {
			g.unsupported("unchanged() on slice of non-scalars")
		}
		key := heapKey(typeKey(sv.Elem), nil, lv[0].suffix)
		srt := nestSort(2, lv[0].sort)
		now := g.nameTerm("(select "+g.heapTerm(ctx.st, key, srt)+" "+sv.Ref+")", "(Array Int "+lv[0].sort+")")
		was := g.nameTerm("(select "+g.heapTerm(ctx.old, key, srt)+" "+sv.Ref+")", "(Array Int "+lv[0].sort+")")
		if now == was {
			return BoolV{"true"}
		}
		g.nfresh++
		j := fmt.Sprintf("j!q%d", g.nfresh)
		return BoolV{fmt.Sprintf("(forall ((%s Int)) (! (=> (and (<= %s %s) (< %s (+ %s %s))) (= (select %s %s) (select %s %s))) :pattern ((select %s %s))))", j, sv.Off, j, j, sv.Off, sv.Len, now, j, was, j, now, j)}
	case "disjoint":
		a, b := arg(0).(SliceV), arg(1).(SliceV)
		return BoolV{not(eq(a.Ref, b.Ref))}
	case "sameblock":
		a, b := arg(0).(SliceV), arg(1).(SliceV)
		return BoolV{eq(a.Ref, b.Ref)}
	case "within":
		// within(s, t): s is a sub-range of t's block range [off, off+cap)
		a, b := arg(0).(SliceV), arg(1).(SliceV)
		return BoolV{and(eq(a.Ref, b.Ref), "(<= "+b.Off+" "+a.Off+")", "(<= (+ "+a.Off+" "+a.Cap+") (+ "+b.Off+" "+b.Cap+"))")}
	case "freshin":
		// allocated during this execution of the function under verification (whatever state `old` denotes here)
		if g.entry != nil {
			switch v := arg(0).(type) {
			case SliceV:
				return BoolV{"(>= " + v.Ref + " " + g.entry.ac + ")"}
			case PtrV:
				return BoolV{"(>= " + v.Ref + " " + g.entry.ac + ")"}
			case IfaceV:
				return BoolV{"(>= " + v.Pay + " " + g.entry.ac + ")"}
			case RefV:
				return BoolV{"(>= " + v.T + " " + g.entry.ac + ")"}
			}
		}
		g.unsupported("freshin() of non-reference")
	case "fresh":
		switch v := arg(0).(type) {
		case SliceV:
			return BoolV{"(>= " + v.Ref + " " + ctx.old.ac + ")"}
		case PtrV:
			return BoolV{"(>= " + v.Ref + " " + ctx.old.ac + ")"}
		case IfaceV:
			// interface holding a pointer: its payload is the reference
			return BoolV{"(>= " + v.Pay + " " + ctx.old.ac + ")"}
		case RefV:
			// map / channel reference
			return BoolV{"(>= " + v.T + " " + ctx.old.ac + ")"}
		}
		g.unsupported("fresh() of non-reference")
	case "min", "max":
		a, b := g.evalInt(ctx, x.Args[0]), g.evalInt(ctx, x.Args[1])
		if x.Fn == "min" {
			return IntV{ite(g.ple(a, b), a, b)}
		}
		return IntV{ite(g.ple(a, b), b, a)}
	case "ite":
		c := g.evalBool(ctx, x.Args[0])
		a, b := arg(1), arg(2)
		switch av := a.(type) {
		case IntV:
			return IntV{ite(c, av.T, b.(IntV).T)}
		case BoolV:
			return BoolV{ite(c, av.T, b.(BoolV).T)}
		}
		g.unsupported("ite of non-scalars")
	case "isnil":
		return BoolV{g.isNil(arg(0))}
	case "typeis":
		iv, ok := arg(0).(IfaceV)
		if !ok {
			g.unsupported("typeis on non-interface")
		}
		s, ok := x.Args[1].(*EStr)
		if !ok {
			g.unsupported("typeis needs a type name string")
		}
		id, ok := g.typeIDs[s.S]
		if !ok {
			id = len(g.typeIDs) + 1
			g.typeIDs[s.S] = id
		}
		return BoolV{eq(iv.Tag, fmt.Sprint(id))}
	case "as":
		// as(x, "T"): the dynamic value of interface x read as *T (T a struct type of the package under contract).
		// When the dynamic value is statically known it is used; otherwise an unconstrained pointer stands for it
		// (the clause has to guard its use, e.g. by result1 == nil ==> ...).
		if len(x.Args) != 2 {
			g.unsupported("as(x, \"Type\")")
		}
		tn, ok := x.Args[1].(*EStr)
		if !ok || g.rootFn == nil || g.rootFn.Pkg == nil {
			g.unsupported("as needs a type name string")
		}
		obj, _ := g.rootFn.Pkg.Pkg.Scope().Lookup(tn.S).(*types.TypeName)
		if obj == nil {
			g.unsupported("as: no type " + tn.S + " in the package")
		}
		if iv, ok := arg(0).(IfaceV); ok {
			if pv, ok := iv.Conc.(PtrV); ok && pv.Cell == nil && types.Identical(pv.Elem, obj.Type()) {
				return pv
			}
		}
		v, _ := g.freshVal(types.NewPointer(obj.Type()), "as_"+tn.S)
		return v
	case "held":
		if sel, ok := x.Args[0].(*ESel); ok && ctx.st != nil {
			if base, ok := g.evalSpec(ctx, sel.X).(PtrV); ok && base.Cell == nil && ctx.st.unpub[base.Ref] {
				// an object this path allocated and has not handed on: exclusive access stands for the lock
				return BoolV{"true"}
			}
		}
		return BoolV{g.heldTerm(ctx.st, g.heldKeyOfExpr(ctx, x.Args[0]))}
	case "int":
		return arg(0)
	case "u64", "uint64":
		// unsigned reading of a 64-bit two's complement value (int mode)
		v := g.evalInt(ctx, x.Args[0])
		return IntV{"(mod " + v + " 18446744073709551616)"}
	case "bvlshr":
		return IntV{"(bvlshr " + g.evalInt(ctx, x.Args[0]) + " " + g.evalInt(ctx, x.Args[1]) + ")"}
	case "bvult":
		return BoolV{"(bvult " + g.evalInt(ctx, x.Args[0]) + " " + g.evalInt(ctx, x.Args[1]) + ")"}
	case "bvule":
		return BoolV{"(bvule " + g.evalInt(ctx, x.Args[0]) + " " + g.evalInt(ctx, x.Args[1]) + ")"}
	}
	// uninterpreted spec function declared by use: name(args) over Int -> Int (or Bool when name starts with "is"/"p_")
	if strings.HasPrefix(x.Fn, "uf_") || strings.HasPrefix(x.Fn, "up_") {
		var ts []string
		var sorts []string
		for i := range x.Args {
			v := arg(i)
			switch y := v.(type) {
			case IntV:
				ts = append(ts, y.T)
				sorts = append(sorts, g.intSort())
			case BoolV:
				ts = append(ts, y.T)
				sorts = append(sorts, "Bool")
			case RealV:
				ts = append(ts, y.T)
				sorts = append(sorts, "Real")
			case PtrV:
				ts = append(ts, y.Ref)
				sorts = append(sorts, "Int")
			case IfaceV:
				ts = append(ts, y.Tag, y.Pay)
				sorts = append(sorts, "Int", "Int")
			case StrV:
				ts = append(ts, y.Arr, y.Off, y.Len)
				sorts = append(sorts, "(Array Int Int)", "Int", "Int")
			case RefV:
				ts = append(ts, y.T)
				sorts = append(sorts, "Int")
			case SliceV:
				if len(g.leaves(y.Elem)) == 1 {
					// a slice of scalars stands for its contents: (block, offset, length)
					blk, so, l := g.seqBlock(ctx, y)
					ts = append(ts, blk, so, l)
					sorts = append(sorts, "(Array Int Int)", "Int", "Int")
				} else {
					// other slices are identified by their view (block id, offset, length)
					ts = append(ts, y.Ref, y.Off, y.Len)
					sorts = append(sorts, "Int", "Int", "Int")
				}
			default:
				g.unsupported("argument of uninterpreted function")
			}
		}
		ret := g.intSort()
		if strings.HasPrefix(x.Fn, "up_") {
			ret = "Bool"
		}
		name := symq(x.Fn)
		if !g.declared[name] {
			g.declared[name] = true
			g.emit("(declare-fun " + name + " (" + strings.Join(sorts, " ") + ") " + ret + ")")
		}
		t := "(" + name + " " + strings.Join(ts, " ") + ")"
		if len(ts) == 0 {
			t = name
		}
		if ret == "Bool" {
			return BoolV{t}
		}
		return IntV{t}
	}
	g.unsupported("unknown contract function " + x.Fn)
	return nil
}

func (g *Gen) isNil(v Val) string {
	switch x := v.(type) {
	case PtrV:
		if x.Cell != nil {
			return "false"
		}
		return eq(x.Ref, "0")
	case SliceV:
		return eq(x.Ref, "0")
	case IfaceV:
		return eq(x.Tag, "0")
	case RefV:
		return eq(x.T, "0")
	case FuncV:
		if x.Fn != nil {
			return "false"
		}
		if x.T == "" {
			return "true"
		}
		return eq(x.T, "0")
	case NilV:
		return "true"
	}
	g.unsupported(fmt.Sprintf("nil comparison of %T", v))
	return ""
}

func (g *Gen) evalBin(ctx *specCtx, x *EBin) Val {
	switch x.Op {
	case "&&":
		return BoolV{and(g.evalBool(ctx, x.L), g.evalBool(ctx, x.R))}
	case "||":
		return BoolV{or(g.evalBool(ctx, x.L), g.evalBool(ctx, x.R))}
	case "==>":
		return BoolV{implies(g.evalBool(ctx, x.L), g.evalBool(ctx, x.R))}
	case "<==>":
		return BoolV{eq(g.evalBool(ctx, x.L), g.evalBool(ctx, x.R))}
	case "==", "!=":
		l, r := g.evalSpec(ctx, x.L), g.evalSpec(ctx, x.R)
		e := g.specEq(l, r)
		if x.Op == "!=" {
			e = not(e)
		}
		return BoolV{e}
	}
	l, r := g.evalSpec(ctx, x.L), g.evalSpec(ctx, x.R)
	if rl, ok := l.(RealV); ok {
		rr, ok := r.(RealV)
		if !ok {
			if ri, ok := r.(IntV); ok {
				rr = RealV{"(to_real " + ri.T + ")"}
			}
		}
		switch x.Op {
		case "<", "<=", ">", ">=":
			return BoolV{"(" + x.Op + " " + rl.T + " " + rr.T + ")"}
		case "+", "-", "*":
			return RealV{"(" + x.Op + " " + rl.T + " " + rr.T + ")"}
		}
	}
	a, ok1 := l.(IntV)
	b, ok2 := r.(IntV)
	if !ok1 || !ok2 {
		g.unsupported("arithmetic on non-integers in contract: " + exprString(x))
	}
	if g.bv {
		switch x.Op {
		case "+":
			return IntV{"(bvadd " + a.T + " " + b.T + ")"}
		case "-":
			return IntV{"(bvsub " + a.T + " " + b.T + ")"}
		case "*":
			return IntV{"(bvmul " + a.T + " " + b.T + ")"}
		case "/":
			return IntV{"(bvudiv " + a.T + " " + b.T + ")"}
		case "%":
			return IntV{"(bvurem " + a.T + " " + b.T + ")"}
		case "<<":
			return IntV{"(bvshl " + a.T + " " + b.T + ")"}
		case ">>":
			return IntV{"(bvashr " + a.T + " " + b.T + ")"}
		case "&":
			return IntV{"(bvand " + a.T + " " + b.T + ")"}
		case "|":
			return IntV{"(bvor " + a.T + " " + b.T + ")"}
		case "^":
			return IntV{"(bvxor " + a.T + " " + b.T + ")"}
		case "<":
			return BoolV{"(bvslt " + a.T + " " + b.T + ")"}
		case "<=":
			return BoolV{"(bvsle " + a.T + " " + b.T + ")"}
		case ">":
			return BoolV{"(bvsgt " + a.T + " " + b.T + ")"}
		case ">=":
			return BoolV{"(bvsge " + a.T + " " + b.T + ")"}
		}
		g.unsupported("bv contract operator " + x.Op)
	}
	switch x.Op {
	case "+", "-", "*":
		return IntV{"(" + x.Op + " " + a.T + " " + b.T + ")"}
	case "/":
		return IntV{"(div " + a.T + " " + b.T + ")"}
	case "%":
		return IntV{"(mod " + a.T + " " + b.T + ")"}
	case "<", "<=", ">", ">=":
		return BoolV{"(" + x.Op + " " + a.T + " " + b.T + ")"}
	case "<<":
		if n, ok := litLen(b.T); ok && n < 64 {
			return IntV{"(* " + a.T + " " + pow2str(n) + ")"}
		}
	case ">>":
		if n, ok := litLen(b.T); ok && n < 64 {
			return IntV{"(div " + a.T + " " + pow2str(n) + ")"}
		}
	}
	g.unsupported("contract operator " + x.Op)
	return nil
}

func (g *Gen) specEq(l, r Val) string {
	if _, ok := l.(NilV); ok {
		return g.isNil(r)
	}
	if _, ok := r.(NilV); ok {
		return g.isNil(l)
	}
	switch a := l.(type) {
	case IntV:
		if b, ok := r.(IntV); ok {
			return eq(a.T, b.T)
		}
	case BoolV:
		if b, ok := r.(BoolV); ok {
			return eq(a.T, b.T)
		}
	case RealV:
		if b, ok := r.(RealV); ok {
			return eq(a.T, b.T)
		}
	case SliceV:
		if b, ok := r.(SliceV); ok {
			return and(eq(a.Ref, b.Ref), eq(a.Off, b.Off), eq(a.Len, b.Len), eq(a.Cap, b.Cap))
		}
	case StrV:
		if b, ok := r.(StrV); ok {
			return g.strEq(a, b)
		}
	case PtrV:
		if b, ok := r.(PtrV); ok {
			if a.Cell != nil || b.Cell != nil {
				if a.Cell == b.Cell {
					return "true"
				}
				return "false"
			}
			return and(eq(a.Ref, b.Ref), "(or (= "+a.Ref+" 0) "+eq(a.Idx, b.Idx)+")")
		}
	case IfaceV:
		if b, ok := r.(IfaceV); ok {
			return and(eq(a.Tag, b.Tag), eq(a.Pay, b.Pay))
		}
	case RefV:
		if b, ok := r.(RefV); ok {
			return eq(a.T, b.T)
		}
	case StructV:
		if b, ok := r.(StructV); ok {
			fa, fb := g.flatten(a, a.T), g.flatten(b, a.T)
			var cs []string
			for i := range fa {
				cs = append(cs, eq(fa[i], fb[i]))
			}
			return and(cs...)
		}
	}
	g.unsupported(fmt.Sprintf("contract equality between %T and %T", l, r))
	return ""
}

// ---------- lock ghost ----------

func (g *Gen) lockKey(v Val) string {
	switch p := v.(type) {
	case PtrV:
		if p.Cell != nil {
			return "local:" + p.Cell.Comment
		}
		return heapKey(p.RootKey, p.Steps, "") + "@" + p.Ref + "," + p.Idx
	}
	g.unsupported("held() of non-pointer")
	return ""
}

func (g *Gen) heldTerm(st *State, key string) string {
	if t, ok := st.held[key]; ok {
		return t
	}
	return "false"
}

func baseStructType(v Val) types.Type {
	switch b := v.(type) {
	case PtrV:
		return b.Elem
	case StructV:
		return b.T
	}
	return nil
}

// promotedVia: if name is not a direct field of t but is reachable through an embedded field, returns that embedded field's name.
func promotedVia(t types.Type, name string) string {
	if t == nil {
		return ""
	}
	st, ok := t.Underlying().(*types.Struct)
	if !ok {
		return ""
	}
	for i := 0; i < st.NumFields(); i++ {
		if st.Field(i).Name() == name {
			return ""
		}
	}
	for i := 0; i < st.NumFields(); i++ {
		f := st.Field(i)
		if !f.Embedded() {
			continue
		}
		ft := f.Type()
		if p, ok := ft.Underlying().(*types.Pointer); ok {
			ft = p.Elem()
		}
		if _, _, ok := structFieldIndex(ft, name); ok || promotedVia(ft, name) != "" {
			return f.Name()
		}
	}
	return ""
}
