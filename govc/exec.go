package main

// VC generation for one function: forward symbolic execution of the naive-form
// SSA over the loop-cut DAG, passive encoding, one query per obligation.

import (
	"os"
	"runtime/debug"
	"fmt"
	"go/token"
	"go/types"
	"sort"
	"strings"

	"golang.org/x/tools/go/ssa"
)

type Obligation struct {
	Name     string `json:"name"`   // site name: func/kind@file:line#n
	Clause   string `json:"clause"` // stable identity: func :: clause id
	Kind     string `json:"kind"`   // index, slice, div, panic, requires, ensures, invariant-entry, invariant-preserved, frame, assert ...
	Pos      string `json:"pos"`    // file:line
	Src      string `json:"src"`    // trimmed source text of that line (part of the obligation's identity)
	Desc     string `json:"desc"`   // human text
	Func     string `json:"func"`   // function under contract
	prefix   int    // number of script lines that belong to the query
	pc       string
	goal     string
	Verdict  string            `json:"verdict"` // unsat(=discharged) sat unknown timeout error
	Solver   string            `json:"solver"`
	Ms       float64           `json:"ms"`
	Model    string            `json:"model,omitempty"`
	Output   string            `json:"output,omitempty"`
	SMTFile  string            `json:"smt_file,omitempty"`
	Inputs   map[string]string `json:"model_inputs,omitempty"` // concretisation mode: values of the function's inputs in the model
	inputs   []inputTerm
	Vacuity  bool   `json:"vacuity,omitempty"` // expected sat
	Cover    bool   `json:"cover,omitempty"`   // cover clause: discharged when some member of the clause is satisfiable
	VacPre   string `json:"vac_pre,omitempty"` // for a post-call reachability check: name of the matching pre-call check
	Trivial  bool   `json:"trivial,omitempty"` // goal simplified to true syntactically
	PathHint string `json:"path_hint,omitempty"`
}

// parentRef: an incoming edge of a join (its condition and the state at the end of that edge).
type parentRef struct {
	cond string
	st   *State
}

type State struct {
	pc    string
	cells map[*ssa.Alloc]Val
	heap  map[string]string
	epoch string
	// parents: set by a join of states with different epochs; a heap component that no incoming state had
	// materialised is, when first read, the merge of the incoming states' (lazily created) terms - not a fresh constant
	parents []parentRef
	ghosts  map[string]Val
	ac      string // allocation counter
	defers  []deferEntry
	held    map[string]string // lock ghost: key -> Bool term
	unpub   map[string]bool   // refs of structs allocated on this path whose pointer has not been handed to anything yet
	mapVer  string            // version of all map contents (bumped by map updates and unknown calls)
	regs    map[ssa.Value]Val // SSA registers defined on the way to this state
}

func (s *State) clone() *State {
	n := &State{pc: s.pc, epoch: s.epoch, ac: s.ac, mapVer: s.mapVer, parents: s.parents}
	n.cells = make(map[*ssa.Alloc]Val, len(s.cells))
	for k, v := range s.cells {
		n.cells[k] = v
	}
	n.heap = make(map[string]string, len(s.heap))
	for k, v := range s.heap {
		n.heap[k] = v
	}
	n.ghosts = make(map[string]Val, len(s.ghosts))
	for k, v := range s.ghosts {
		n.ghosts[k] = v
	}
	n.held = make(map[string]string, len(s.held))
	for k, v := range s.held {
		n.held[k] = v
	}
	n.unpub = make(map[string]bool, len(s.unpub))
	for k := range s.unpub {
		n.unpub[k] = true
	}
	n.defers = append([]deferEntry(nil), s.defers...)
	n.regs = make(map[ssa.Value]Val, len(s.regs)+8)
	for k, v := range s.regs {
		n.regs[k] = v
	}
	return n
}

// deferEntry: a deferred call and the condition under which it was registered on this path.
type deferEntry struct {
	d     *ssa.Defer
	guard string
	vals  map[ssa.Value]Val // operands of the deferred call, evaluated when the defer statement ran
}

type edge struct {
	from *ssa.BasicBlock
	st   *State
	cond string // pc of the edge (already includes st.pc)
}

type loopInfo struct {
	head    *ssa.BasicBlock
	ordinal int
	body    map[*ssa.BasicBlock]bool
	cells   map[*ssa.Alloc]bool
	// discovered in pass 1
	heapKeys  map[string]bool
	allHeaps  bool
	keep      []string // with allHeaps: components every unknown-effect call of the body preserves
	ghosts    map[string]bool
	allocates bool
	spec      *LoopSpec
	headHeld  map[string]string
}

type abstraction struct {
	Kind string `json:"kind"`
	What string `json:"what"`
	Pos  string `json:"pos"`
}

type outerScope struct {
	paramVals  map[string]Val
	localNames map[string][]*ssa.Alloc
	escaping   map[*ssa.Alloc]bool
}

type Gen struct {
	loopForms       []string
	constructorRef  string
	outerScopes     []outerScope
	rootLoopSigs    []string
	ownedCache      map[*ssa.Function]map[ssa.Value]bool
	loopSigs        []string
	loopRemapped    bool
	W               *World
	fn              *ssa.Function
	spec            *FuncSpec
	bv              bool
	lines           []string
	nfresh          int
	declared        map[string]bool
	regs            map[ssa.Value]Val
	obls            []*Obligation
	heapSorts       map[string]string
	fnIDs           map[*ssa.Function]int
	typeIDs         map[string]int
	entry           *State
	paramVals       map[string]Val
	loops           map[*ssa.BasicBlock]*loopInfo
	escaping        map[*ssa.Alloc]bool
	discovery       bool // pass 1: discover loop write sets
	curBlock        *ssa.BasicBlock
	blockStack      []*ssa.BasicBlock
	rootFn          *ssa.Function
	inlineDepth     int
	inlineRets      *[]inlineRet
	p1Write         map[*ssa.BasicBlock]map[string]bool
	p1WriteAll      map[*ssa.BasicBlock]bool
	p1Ghost         map[*ssa.BasicBlock]map[string]bool
	p1Alloc         map[*ssa.BasicBlock]bool
	writeLog        map[*ssa.BasicBlock]map[string]bool
	writeAll        map[*ssa.BasicBlock]bool
	writeAllKeep    map[*ssa.BasicBlock][]string // components every havoc-all event of the block preserves (intersection)
	p1WriteAllKeep  map[*ssa.BasicBlock][]string
	ghostLog        map[*ssa.BasicBlock]map[string]bool
	allocLog        map[*ssa.BasicBlock]bool
	abstractions    []abstraction
	trustedUsed     map[string]bool
	oblCount        map[string]int
	frame           []frameItem // permitted writes (nil => unchecked)
	frameOn         bool
	err             error
	curPos          token.Pos
	retCount        int
	unsupportedMsgs []string
	localNames      map[string][]*ssa.Alloc
	calleeUse       map[*CalleeSpec]int
	assertUse       map[*Clause]int
	setAtUse        map[*SetClause]int
	fuzzy           map[string]string // anchor -> source line matched approximately
	anchorNotes     []string
	driftedInv      map[*Clause]bool
	freeVarNames    map[string]bool
	inputCache      []inputTerm
	unroll          int // > 0: concretisation mode (bounded unrolling instead of loop cutting)
	curIter         int
	uincoming       map[unode][]edge
	specFacts       []string
	inQuant         int
	incoming        map[*ssa.BasicBlock][]edge
}

type frameItem struct {
	keyPrefix string // heap key or key prefix
	exact     bool   // key must match exactly, else prefix
	ref       string
	idx       string // "" = any index in block
	lo, hi    string // optional index range [lo,hi)
}

type unsupportedErr struct{ msg string }

func (g *Gen) unsupported(msg string) {
	if os.Getenv("GOVC_DEBUG_UNSUPPORTED") != "" {
		debug.PrintStack()
	}
	panic(unsupportedErr{msg + " at " + g.posStr(g.curPos)})
}

func (g *Gen) posStr(p token.Pos) string {
	if !p.IsValid() {
		return "?"
	}
	pp := g.W.fset.Position(p)
	f := pp.Filename
	if strings.HasPrefix(f, g.W.repo+"/") {
		f = f[len(g.W.repo)+1:]
	}
	return fmt.Sprintf("%s:%d", f, pp.Line)
}

func (g *Gen) emit(s string) { g.lines = append(g.lines, s) }

func (g *Gen) fresh(hint, sort string) string {
	g.nfresh++
	n := fmt.Sprintf("%s!%d", sanitize(hint), g.nfresh)
	if strings.ContainsAny(n, "|\\ ") || n == "" {
		n = fmt.Sprintf("v!%d", g.nfresh)
	}
	g.emit("(declare-const " + n + " " + sort + ")")
	return n
}

func (g *Gen) defBool(hint, term string) string {
	if term == "true" || term == "false" {
		return term
	}
	n := g.fresh(hint, "Bool")
	g.emit("(assert (= " + n + " " + term + "))")
	return n
}

func (g *Gen) assume(st *State, c string) {
	if c == "true" {
		return
	}
	st.pc = g.defBool("pc", and(st.pc, c))
}

func (g *Gen) note(kind, what string) {
	if g.discovery {
		return
	}
	g.abstractions = append(g.abstractions, abstraction{kind, what, g.posStr(g.curPos)})
}

// logBlocks: the current block plus the call-site blocks of every enclosing inlined call.
func (g *Gen) logBlocks() []*ssa.BasicBlock {
	var out []*ssa.BasicBlock
	if g.curBlock != nil {
		out = append(out, g.curBlock)
	}
	return append(out, g.blockStack...)
}

func (g *Gen) noteWrite(key string) {
	for _, b := range g.logBlocks() {
		m := g.writeLog[b]
		if m == nil {
			m = map[string]bool{}
			g.writeLog[b] = m
		}
		m[key] = true
	}
}

func (g *Gen) noteAlloc() {
	for _, b := range g.logBlocks() {
		g.allocLog[b] = true
	}
}

func (g *Gen) noteWriteAll(preserve ...string) {
	for _, b := range g.logBlocks() {
		if !g.writeAll[b] {
			g.writeAllKeep[b] = append([]string{}, preserve...)
		} else {
			g.writeAllKeep[b] = intersectStrings(g.writeAllKeep[b], preserve)
		}
		g.writeAll[b] = true
		g.allocLog[b] = true
	}
}

func intersectStrings(a, b []string) []string {
	out := []string{}
	for _, x := range a {
		for _, y := range b {
			if x == y {
				out = append(out, x)
				break
			}
		}
	}
	return out
}

// oblige records a proof obligation `goal` at the current point and assumes it afterwards.
func (g *Gen) oblige(st *State, kind, clauseID, desc, goal string) {
	if g.discovery {
		g.assume(st, goal)
		return
	}
	fnName := g.rootFn.RelString(g.rootFn.Pkg.Pkg)
	pos := g.posStr(g.curPos)
	site := fmt.Sprintf("%s/%s@%s", fnName, kind, pos)
	g.oblCount[site]++
	name := fmt.Sprintf("%s#%d", site, g.oblCount[site])
	if clauseID == "" {
		clauseID = "safety:" + kind
		if rs := g.rootSpec(); rs != nil && len(rs.AssumeSafe) > 0 {
			line := g.W.sourceLine(g.curPos)
			for _, a := range rs.AssumeSafe {
				if strings.Contains(line, a) {
					g.trustedUsed["safety of `"+a+"` assumed (assume-safe), not proved"] = true
					g.assume(st, goal)
					return
				}
			}
		}
	}
	o := &Obligation{Name: name, Clause: fnName + " :: " + clauseID, Kind: kind, Pos: pos, Src: g.W.sourceLine(g.curPos), Desc: desc, Func: fnName,
		prefix: len(g.lines), pc: st.pc, goal: goal}
	if goal == "true" || st.pc == "false" {
		o.Trivial = true
		o.Verdict = "unsat"
		o.Solver = "syntactic"
	}
	g.obls = append(g.obls, o)
	// a clause recorded as failing on the pinned tree (an open finding) is checked but never assumed: assumed, it would be
	// a false fact under which the later clauses of this return (and every caller) are proved
	if g.W.noAssume[strings.TrimPrefix(g.rootFn.Pkg.Pkg.Path(), g.W.modPath+"/")+"::"+fnName+" :: "+clauseID] {
		return
	}
	if goal == "false" {
		// "this must not happen here" (a call with unknown effects under a frame clause, a guarded call): assuming it
		// would end the path and make everything behind it vacuously true - the rest of the path stays checked
		return
	}
	g.assume(st, goal)
}

// ---------- function-level driver ----------

func (g *Gen) run() (err error) {
	defer func() {
		if r := recover(); r != nil {
			if u, ok := r.(unsupportedErr); ok {
				err = fmt.Errorf("unsupported: %s", u.msg)
				return
			}
			panic(r)
		}
	}()
	g.findLoops()
	g.findEscaping()
	g.resolveAnchors()
	if g.unroll > 0 {
		g.discovery = false
		g.reset()
		g.execAll()
		return nil
	}
	// pass 1: discover what each loop writes
	g.discovery = true
	g.execAll()
	g.p1Write, g.p1WriteAll, g.p1Ghost, g.p1Alloc = g.writeLog, g.writeAll, g.ghostLog, g.allocLog
	g.p1WriteAllKeep = g.writeAllKeep
	g.summariseLoops()
	// pass 2: the real thing
	g.discovery = false
	g.reset()
	g.execAll()
	return nil
}

func (g *Gen) reset() {
	g.lines = nil
	g.nfresh = 0
	g.declared = map[string]bool{}
	g.regs = map[ssa.Value]Val{}
	g.obls = nil
	g.abstractions = nil
	g.oblCount = map[string]int{}
	g.retCount = 0
	g.writeLog = map[*ssa.BasicBlock]map[string]bool{}
	g.writeAll = map[*ssa.BasicBlock]bool{}
	g.writeAllKeep = map[*ssa.BasicBlock][]string{}
	g.ghostLog = map[*ssa.BasicBlock]map[string]bool{}
	g.allocLog = map[*ssa.BasicBlock]bool{}
	g.calleeUse = map[*CalleeSpec]int{}
	g.assertUse = map[*Clause]int{}
	g.setAtUse = map[*SetClause]int{}
	g.freeVarNames = map[string]bool{}
	g.trustedUsed = map[string]bool{}
}

func (g *Gen) findLoops() {
	g.loops = map[*ssa.BasicBlock]*loopInfo{}
	fn := g.fn
	for _, b := range fn.Blocks {
		for _, s := range b.Succs {
			if s.Dominates(b) {
				li := g.loops[s]
				if li == nil {
					li = &loopInfo{head: s, body: map[*ssa.BasicBlock]bool{s: true}, cells: map[*ssa.Alloc]bool{}}
					g.loops[s] = li
				}
				// natural loop of back edge b->s
				stack := []*ssa.BasicBlock{b}
				for len(stack) > 0 {
					x := stack[len(stack)-1]
					stack = stack[:len(stack)-1]
					if li.body[x] {
						continue
					}
					li.body[x] = true
					stack = append(stack, x.Preds...)
				}
			}
		}
	}
	// ordinals in source order of the loop head's first position
	var heads []*ssa.BasicBlock
	for h := range g.loops {
		heads = append(heads, h)
	}
	posOf := func(b *ssa.BasicBlock) token.Pos {
		// the for statement's position: smallest valid position among instructions of blocks in the loop
		best := token.NoPos
		for bb := range g.loops[b].body {
			for _, in := range bb.Instrs {
				p := in.Pos()
				if p.IsValid() && (!best.IsValid() || p < best) {
					best = p
				}
			}
		}
		return best
	}
	sort.Slice(heads, func(i, j int) bool {
		pi, pj := posOf(heads[i]), posOf(heads[j])
		if pi != pj {
			return pi < pj
		}
		return heads[i].Index < heads[j].Index
	})
	// signatures (callee names + nesting depth): contracts address loops by ordinal in source order; when a change merely
	// reorders the loops (branches swapped, a block moved) the ordinals are mapped back through the signatures recorded on
	// the baseline tree, so that an invariant keeps talking about its own loop
	sigOf := func(h *ssa.BasicBlock) string {
		names := map[string]bool{}
		for bb := range g.loops[h].body {
			for _, in := range bb.Instrs {
				var cc *ssa.CallCommon
				switch x := in.(type) {
				case *ssa.Call:
					cc = x.Common()
				case *ssa.Defer:
					cc = x.Common()
				case *ssa.Go:
					cc = x.Common()
				}
				if cc == nil {
					continue
				}
				if cc.IsInvoke() {
					names[cc.Method.Name()] = true
				} else if f := cc.StaticCallee(); f != nil {
					names[f.Name()] = true
				} else if _, ok := cc.Value.(*ssa.Builtin); ok {
					// len / cap / append ...: a range loop evaluates len outside the loop, an index loop inside - noise
				} else {
					names["<dynamic>"] = true
				}
			}
		}
		depth := 0
		for h2, l2 := range g.loops {
			if h2 != h && l2.body[h] {
				depth++
			}
		}
		return fmt.Sprintf("d%d:%s", depth, strings.Join(sortedKeys(names), ","))
	}
	g.loopSigs = nil
	for _, h := range heads {
		g.loopSigs = append(g.loopSigs, sigOf(h))
	}
	if g.fn == g.rootFn {
		g.rootLoopSigs = append([]string(nil), g.loopSigs...)
	}
	ordOf := map[*ssa.BasicBlock]int{}
	for i, h := range heads {
		ordOf[h] = i + 1
	}
	if base := g.W.baseLoopSigs[g.fn.Pkg.Pkg.Path()+"::"+g.fn.RelString(g.fn.Pkg.Pkg)]; g.fn == g.rootFn && len(base) > 0 {
		same := len(base) == len(heads)
		cnt, bcnt := map[string]int{}, map[string]int{}
		for i, sg := range g.loopSigs {
			if same && sg != base[i] {
				same = false
			}
			cnt[sg]++
		}
		for _, sg := range base {
			bcnt[sg]++
		}
		if !same {
			// a loop whose signature is unique now and was unique on the baseline tree keeps its baseline ordinal (loops were
			// reordered, or one was moved out into a helper / added); the others take the free ordinals in source order
			used := map[int]bool{}
			assigned := map[*ssa.BasicBlock]int{}
			for _, h := range heads {
				sg := g.loopSigs[ordOf[h]-1]
				if cnt[sg] == 1 && bcnt[sg] == 1 {
					for bi, bs := range base {
						if bs == sg {
							assigned[h] = bi + 1
							used[bi+1] = true
						}
					}
				}
			}
			if len(assigned) > 0 {
				next := 1
				for _, h := range heads {
					if _, ok := assigned[h]; ok {
						continue
					}
					for used[next] {
						next++
					}
					assigned[h] = next
					used[next] = true
				}
				for h, o := range assigned {
					if ordOf[h] != o {
						g.loopRemapped = true
					}
					ordOf[h] = o
				}
			}
		}
	}
	// loop form (range loop / plain for loop): an invariant written for one form talks about the counter of that form
	// (`i`, or the hidden rangeindex); when a change turns the loop into the other form the invariants of that loop are
	// contract drift (dropped for this run, what rests on them undecided), not failures
	formOf := func(h *ssa.BasicBlock) string {
		li := g.loops[h]
		for bb := range li.body {
			nested := false
			for h2, l2 := range g.loops {
				if h2 != h && li.body[h2] && l2.body[bb] {
					nested = true
				}
			}
			if nested {
				continue
			}
			for _, in := range bb.Instrs {
				if st, ok := in.(*ssa.Store); ok {
					// the increment of the hidden index (its initialisation to -1 sits in front of the loop, i.e. in the
					// enclosing loop's own blocks)
					if a, ok := st.Addr.(*ssa.Alloc); ok && a.Comment == "rangeindex" {
						if _, inc := st.Val.(*ssa.BinOp); inc {
							return "range"
						}
					}
				}
			}
		}
		return "for"
	}
	g.loopForms = nil
	for _, h := range heads {
		g.loopForms = append(g.loopForms, formOf(h))
	}
	baseForms := g.W.baseLoopForms[g.fn.Pkg.Pkg.Path()+"::"+g.fn.RelString(g.fn.Pkg.Pkg)]
	for _, h := range heads {
		li := g.loops[h]
		li.ordinal = ordOf[h]
		if g.spec != nil {
			li.spec = g.spec.Loops[li.ordinal]
		}
		if g.fn == g.rootFn && li.ordinal >= 1 && li.ordinal <= len(baseForms) && baseForms[li.ordinal-1] != formOf(h) && li.spec != nil && len(li.spec.Invariants) > 0 {
			if g.driftedInv == nil {
				g.driftedInv = map[*Clause]bool{}
			}
			for _, c := range li.spec.Invariants {
				g.driftedInv[c] = true
			}
			note := fmt.Sprintf("loop %d invariant: the loop changed its form (%s loop on the baseline tree, %s loop now): its invariants names a variable the code no longer has in that role - not applied", li.ordinal, baseForms[li.ordinal-1], formOf(h))
			dup := false
			for _, n := range g.anchorNotes {
				if n == note {
					dup = true
				}
			}
			if !dup {
				g.anchorNotes = append(g.anchorNotes, note)
			}
		}
		for bb := range li.body {
			for _, in := range bb.Instrs {
				if st, ok := in.(*ssa.Store); ok {
					if a := rootAlloc(st.Addr); a != nil {
						li.cells[a] = true
					}
				}
				// an Alloc executed inside the loop re-zeroes its cell
				if a, ok := in.(*ssa.Alloc); ok {
					li.cells[a] = true
				}
			}
		}
	}
}

func rootAlloc(v ssa.Value) *ssa.Alloc {
	for {
		switch x := v.(type) {
		case *ssa.Alloc:
			return x
		case *ssa.FieldAddr:
			v = x.X
		case *ssa.IndexAddr:
			// only pointer-to-array index keeps us inside the cell
			if _, ok := x.X.Type().Underlying().(*types.Pointer); ok {
				v = x.X
			} else {
				return nil
			}
		default:
			return nil
		}
	}
}

func (g *Gen) findEscaping() {
	g.escaping = map[*ssa.Alloc]bool{}
	g.localNames = map[string][]*ssa.Alloc{}
	var visit func(root *ssa.Alloc, v ssa.Value) bool
	visit = func(root *ssa.Alloc, v ssa.Value) bool {
		refs := v.Referrers()
		if refs == nil {
			return false
		}
		for _, r := range *refs {
			switch x := r.(type) {
			case *ssa.UnOp:
				if x.Op != token.MUL {
					return true
				}
			case *ssa.Store:
				if x.Val == v {
					return true
				}
			case *ssa.DebugRef:
			case *ssa.FieldAddr:
				if visit(root, x) {
					return true
				}
			case *ssa.IndexAddr:
				if visit(root, x) {
					return true
				}
			default:
				return true
			}
		}
		return false
	}
	for _, b := range g.fn.Blocks {
		for _, in := range b.Instrs {
			if a, ok := in.(*ssa.Alloc); ok {
				if a.Heap || visit(a, a) {
					g.escaping[a] = true
				}
				if a.Comment != "" {
					g.localNames[a.Comment] = append(g.localNames[a.Comment], a)
				}
			}
		}
	}
	// name#k counts declarations in source order (SSA block order is not source order)
	firstPos := func(a *ssa.Alloc) token.Pos {
		best := a.Pos()
		if refs := a.Referrers(); refs != nil {
			for _, r := range *refs {
				p := r.Pos()
				if !p.IsValid() {
					// synthetic loads/stores: use the block's first positioned instruction
					for _, in := range r.Block().Instrs {
						if in.Pos().IsValid() {
							p = in.Pos()
							break
						}
					}
				}
				if p.IsValid() && (!best.IsValid() || p < best) {
					best = p
				}
			}
		}
		return best
	}
	for _, as := range g.localNames {
		if len(as) > 1 {
			sort.SliceStable(as, func(i, j int) bool {
				pi, pj := firstPos(as[i]), firstPos(as[j])
				if pi != pj && pi.IsValid() && pj.IsValid() {
					return pi < pj
				}
				return false
			})
		}
	}
}

func (g *Gen) summariseLoops() {
	for _, li := range g.loops {
		li.heapKeys = map[string]bool{}
		li.ghosts = map[string]bool{}
		for bb := range li.body {
			for k := range g.p1Write[bb] {
				li.heapKeys[k] = true
			}
			if g.p1WriteAll[bb] {
				if !li.allHeaps {
					li.keep = append([]string{}, g.p1WriteAllKeep[bb]...)
				} else {
					li.keep = intersectStrings(li.keep, g.p1WriteAllKeep[bb])
				}
				li.allHeaps = true
			}
			for k := range g.p1Ghost[bb] {
				li.ghosts[k] = true
			}
			if g.p1Alloc[bb] {
				li.allocates = true
			}
		}
	}
}

func (g *Gen) execAll() {
	fn := g.fn
	g.emit("; function " + fn.String())
	st := &State{pc: "true", cells: map[*ssa.Alloc]Val{}, heap: map[string]string{}, epoch: "0", ghosts: map[string]Val{}, held: map[string]string{}, unpub: map[string]bool{}, regs: map[ssa.Value]Val{}}
	g.regs = st.regs
	st.ac = g.fresh("ac", "Int")
	g.emit("(assert (< 0 " + st.ac + "))")
	st.mapVer = "0"
	g.curBlock = nil
	// parameters
	g.paramVals = map[string]Val{}
	var names []string
	for i, p := range fn.Params {
		v, inv := g.freshVal(p.Type(), "p_"+p.Name())
		g.regs[p] = v
		name := p.Name()
		if g.spec != nil && g.spec.ParamsOv != nil {
			// override names positionally (receiver first for methods)
			if i < len(g.spec.ParamsOv) {
				name = g.spec.ParamsOv[i]
			}
		}
		g.paramVals[name] = v
		names = append(names, name)
		g.assume(st, inv)
		g.assume(st, g.allocatedInv(st, v, p.Type()))
		if i == 0 && fn.Signature.Recv() != nil {
			if pv, ok := v.(PtrV); ok {
				g.assume(st, "(< 0 "+pv.Ref+")") // receivers are non-nil (assumption, listed)
			}
		}
	}
	cellRefs := map[string][]string{}
	for _, fv := range fn.FreeVars {
		v, inv := g.freshVal(fv.Type(), "fv_"+fv.Name())
		// a free variable is a pointer to the captured variable
		if pv, ok := v.(PtrV); ok && pv.Cell == nil && isScalarType(pv.Elem) && onlyLoadStore(fv) {
			// a variable's own cell is never an element of a slice or a field of a struct: when the closure only
			// reads and writes it, it lives in a heap component of its own (no aliasing with []T elements)
			pv.RootKey = "cell:" + pv.RootKey
			v = pv
			// different captured variables are different cells
			for _, prev := range cellRefs[pv.RootKey] {
				g.assume(st, "(not (= "+pv.Ref+" "+prev+"))")
			}
			cellRefs[pv.RootKey] = append(cellRefs[pv.RootKey], pv.Ref)
		}
		g.regs[fv] = v
		g.paramVals[fv.Name()] = v
		g.freeVarNames[fv.Name()] = true
		g.assume(st, inv)
	}
	// ghosts
	if g.spec != nil {
		for _, gd := range g.spec.Ghosts {
			v := g.ghostFresh(gd.Type, "g_"+gd.Name)
			st.ghosts[gd.Name] = v
		}
	}
	g.entry = st.clone()
	g.constructorRef = ""
	if g.spec != nil && g.spec.Options["constructor"] != "" && g.fn == g.rootFn && len(g.fn.Params) > 0 && g.fn.Signature.Recv() != nil {
		if base, ok := g.paramVals[g.fn.Params[0].Name()].(PtrV); ok && base.Cell == nil {
			g.constructorRef = base.Ref
		}
	}
	if g.spec != nil {
		for _, gd := range g.spec.Ghosts {
			if gd.Init != nil {
				iv := g.evalSpec(&specCtx{g: g, st: st, old: g.entry, entryNames: true}, gd.Init)
				st.ghosts[gd.Name] = iv
			}
		}
		g.entry = st.clone()
		ctx := &specCtx{g: g, st: st, old: g.entry, entryNames: true}
		for _, e := range g.spec.Releases {
			st.held[g.heldKeyOfExpr(ctx, e)] = "true"
		}
		for _, c := range g.spec.Requires {
			g.curPos = token.NoPos
			for _, h := range heldConjuncts(c.E) {
				st.held[g.heldKeyOfExpr(ctx, h)] = "true"
			}
			g.assume(st, g.evalAssume(ctx, c.E))
		}
		// frame
		g.frameOn = false
		g.frame = nil
		if g.spec.Pure && g.spec.Modifies == nil {
			g.frameOn = true
		}
		if g.spec.Modifies != nil {
			g.frameOn = true
			for _, it := range g.spec.Modifies.Items {
				g.frame = append(g.frame, g.frameItems(ctx, it)...)
			}
		}
		g.entry.pc = st.pc
	}
	if !g.discovery {
		// vacuity: precondition must be satisfiable
		o := &Obligation{Name: g.fn.RelString(g.fn.Pkg.Pkg) + "/vacuity-requires", Clause: g.fn.RelString(g.fn.Pkg.Pkg) + " :: vacuity:requires", Kind: "vacuity", Func: g.fn.RelString(g.fn.Pkg.Pkg),
			Desc: "precondition is satisfiable", prefix: len(g.lines), pc: st.pc, goal: "false", Vacuity: true}
		g.obls = append(g.obls, o)
	}

	if len(fn.Blocks) == 0 {
		return
	}
	g.runBlocks(st)
}

type unode struct {
	b *ssa.BasicBlock
	k int
}

// runBlocksUnrolled: bounded symbolic execution for CONCRETISATION ONLY.  Loops are not cut: a back edge
// leads to the next copy of the loop head, at most g.unroll back edges are followed on any path, paths that
// would need more are dropped.  Every model of a query produced here is an execution prefix of the real
// function from its entry, so the values of the parameters in the model are a real input.
func (g *Gen) runBlocksUnrolled(st *State) {
	fn := g.fn
	order := g.topo()
	inc := map[unode][]edge{}
	inc[unode{fn.Blocks[0], 0}] = []edge{{nil, st, st.pc}}
	saveInc := g.uincoming
	g.uincoming = inc
	defer func() { g.uincoming = saveInc }()
	for k := 0; k <= g.unroll; k++ {
		for _, b := range order {
			ins := inc[unode{b, k}]
			if len(ins) == 0 {
				continue
			}
			g.curBlock = b
			g.curIter = k
			cur := g.join(b, ins)
			g.execBlock(b, cur)
		}
	}
}

// runBlocks executes the loop-cut DAG of g.fn starting from st.
func (g *Gen) runBlocks(st *State) {
	if g.unroll > 0 {
		g.runBlocksUnrolled(st)
		return
	}
	fn := g.fn
	order := g.topo()
	g.incoming = map[*ssa.BasicBlock][]edge{}
	g.incoming[fn.Blocks[0]] = []edge{{nil, st, st.pc}}
	for _, b := range order {
		ins := g.incoming[b]
		if len(ins) == 0 {
			continue // unreachable
		}
		g.curBlock = b
		var cur *State
		if li := g.loops[b]; li != nil {
			cur = g.enterLoop(li, ins)
		} else {
			cur = g.join(b, ins)
		}
		g.execBlock(b, cur)
	}
}

type inlineRet struct {
	st      *State
	results []Val
}

// inlineCall symbolically executes the body of fn (a closure or a function marked inline) in place.
func (g *Gen) inlineCall(st *State, fn *ssa.Function, args []Val, binds []Val, rt types.Type) Val {
	if g.inlineDepth >= 4 {
		g.unsupported("inlining too deep at " + fn.String())
	}
	if len(fn.Blocks) == 0 {
		g.unsupported("cannot inline body-less function " + fn.String())
	}
	// save context
	sFn, sSpec, sLoops, sEsc, sNames, sInc, sBlk, sRets, sPV, sPos := g.fn, g.spec, g.loops, g.escaping, g.localNames, g.incoming, g.curBlock, g.inlineRets, g.paramVals, g.curPos
	sStack := g.blockStack
	if g.curBlock != nil {
		g.blockStack = append(append([]*ssa.BasicBlock(nil), g.blockStack...), g.curBlock)
	}
	callerDefers := st.defers
	st.defers = nil
	g.inlineDepth++
	g.fn = fn
	g.spec = g.W.specFor(fn)
	pushedScope := false
	if g.spec == nil && g.W.isNewFunc(fn) && sSpec != nil {
		// a helper the change under test carved out of the function under contract: the calls and anchored statements it
		// took along keep their call-site clauses / anchors / options (loop clauses stay with the function's own loops);
		// names of the enclosing function that those clauses mention resolve through the saved scope
		g.spec = &FuncSpec{Name: sSpec.Name, Pkg: sSpec.Pkg, Callees: sSpec.Callees, Asserts: sSpec.Asserts, SetAts: sSpec.SetAts,
			Options: sSpec.Options, Binds: sSpec.Binds, AssumeSafe: sSpec.AssumeSafe, File: sSpec.File, Loops: map[int]*LoopSpec{}}
		g.outerScopes = append(g.outerScopes, outerScope{paramVals: sPV, localNames: sNames, escaping: sEsc})
		pushedScope = true
	}
	defer func() {
		if pushedScope {
			g.outerScopes = g.outerScopes[:len(g.outerScopes)-1]
		}
	}()
	g.findLoops()
	if g.W.isNewFunc(fn) && len(g.loops) > 0 {
		// a loop that the change MOVED out of the function under contract into a new helper has lost its invariant (the
		// contract addresses loops of that function only): what is proved behind it rests on type facts alone, so failures
		// are drift, not violations.  Recognised by signature: a loop the baseline recorded for the root function is gone
		// there and a loop with that signature is in the helper.  A helper with loops of its own (new code) is simply executed.
		base := g.W.baseLoopSigs[g.rootFn.Pkg.Pkg.Path()+"::"+g.rootFn.RelString(g.rootFn.Pkg.Pkg)]
		have := map[string]bool{}
		for _, sg := range g.rootLoopSigs {
			have[sg] = true
		}
		moved := false
		names := func(sig string) string { // the nesting depth differs between the function and the helper
			if i := strings.Index(sig, ":"); i >= 0 {
				return sig[i+1:]
			}
			return sig
		}
		for _, hs := range g.loopSigs {
			for _, bs := range base {
				if names(bs) == names(hs) && !have[bs] {
					moved = true
				}
			}
		}
		if moved {
			g.note("inline-loop", "helper "+fn.Name()+" (not on the baseline tree) took over a loop of this function, without its invariant: failures of this function are not decided")
		}
	}
	g.findEscaping()
	if !g.discovery {
		g.summariseLoops()
	}
	g.paramVals = map[string]Val{}
	start := st.clone()
	for i, p := range fn.Params {
		if i < len(args) {
			start.regs[p] = args[i]
			g.paramVals[p.Name()] = args[i]
		}
	}
	for i, fv := range fn.FreeVars {
		if i < len(binds) {
			start.regs[fv] = binds[i]
			g.paramVals[fv.Name()] = binds[i]
			g.freeVarNames[fv.Name()] = true
		}
	}
	var rets []inlineRet
	g.inlineRets = &rets
	g.runBlocks(start)
	g.regs = st.regs
	// restore
	g.fn, g.spec, g.loops, g.escaping, g.localNames, g.incoming, g.curBlock, g.inlineRets, g.paramVals, g.curPos = sFn, sSpec, sLoops, sEsc, sNames, sInc, sBlk, sRets, sPV, sPos
	g.blockStack = sStack
	g.inlineDepth--
	var res Val = TupleV{}
	if len(rets) == 0 {
		st.pc = "false"
		if rt != nil {
			v, _ := g.freshVal(rt, "noret")
			res = v
		}
		st.defers = callerDefers
		return res
	}
	var ins []edge
	var conds []string
	for _, r := range rets {
		ins = append(ins, edge{nil, r.st, r.st.pc})
		conds = append(conds, r.st.pc)
	}
	merged := g.join(nil, ins)
	callerRegs := st.regs
	*st = *merged
	// registers of the callee are not visible to the caller; the caller's own registers survive
	for k, v := range callerRegs {
		st.regs[k] = v
	}
	g.regs = st.regs
	st.defers = callerDefers
	nres := len(rets[0].results)
	if nres > 0 {
		sig := fn.Signature.Results()
		var outs []Val
		for k := 0; k < nres; k++ {
			var vals []Val
			for _, r := range rets {
				vals = append(vals, r.results[k])
			}
			if len(vals) == 1 {
				outs = append(outs, vals[0])
			} else {
				outs = append(outs, g.mergeVals("ret", sig.At(k).Type(), vals, conds))
			}
		}
		if nres == 1 {
			res = outs[0]
		} else {
			res = TupleV{E: outs}
		}
	}
	return res
}

func (g *Gen) topo() []*ssa.BasicBlock {
	fn := g.fn
	indeg := map[*ssa.BasicBlock]int{}
	for _, b := range fn.Blocks {
		for _, s := range b.Succs {
			if s.Dominates(b) {
				continue
			}
			indeg[s]++
		}
	}
	var order []*ssa.BasicBlock
	var ready []*ssa.BasicBlock
	for _, b := range fn.Blocks {
		if indeg[b] == 0 {
			ready = append(ready, b)
		}
	}
	for len(ready) > 0 {
		sort.Slice(ready, func(i, j int) bool { return ready[i].Index < ready[j].Index })
		b := ready[0]
		ready = ready[1:]
		order = append(order, b)
		for _, s := range b.Succs {
			if s.Dominates(b) {
				continue
			}
			indeg[s]--
			if indeg[s] == 0 {
				ready = append(ready, s)
			}
		}
	}
	if len(order) != len(fn.Blocks) {
		g.unsupported("irreducible control flow")
	}
	return order
}

// join merges the states of the incoming edges.
func (g *Gen) join(b *ssa.BasicBlock, ins []edge) *State {
	if len(ins) == 1 {
		s := ins[0].st.clone()
		s.pc = ins[0].cond
		if b != nil {
			g.phis(b, ins, s)
		}
		return s
	}
	res := ins[0].st.clone()
	var conds []string
	for _, e := range ins {
		conds = append(conds, e.cond)
	}
	bname := "ret"
	if b != nil {
		bname = fmt.Sprint(b.Index)
	}
	res.pc = g.defBool("pc_b"+bname, or(conds...))
	// epoch
	same := true
	for _, e := range ins[1:] {
		if e.st.epoch != ins[0].st.epoch {
			same = false
		}
	}
	if !same {
		g.nfresh++
		res.epoch = fmt.Sprintf("j%d", g.nfresh)
		res.parents = nil
		for _, e := range ins {
			res.parents = append(res.parents, parentRef{cond: e.cond, st: e.st})
		}
	}
	// heaps: keys known in any pred
	keys := map[string]bool{}
	for _, e := range ins {
		for k := range e.st.heap {
			keys[k] = true
		}
	}
	var klist []string
	for k := range keys {
		klist = append(klist, k)
	}
	sort.Strings(klist)
	res.heap = map[string]string{}
	for _, k := range klist {
		var terms []string
		for _, e := range ins {
			terms = append(terms, g.heapTerm(e.st, k, g.heapSorts[k]))
		}
		res.heap[k] = g.mergeTerms("h", g.heapSorts[k], terms, conds)
	}
	// ac
	{
		var terms []string
		for _, e := range ins {
			terms = append(terms, e.st.ac)
		}
		res.ac = g.mergeTerms("ac", "Int", terms, conds)
		var mv []string
		for _, e := range ins {
			mv = append(mv, e.st.mapVer)
		}
		res.mapVer = g.mergeTerms("mapver", "Int", mv, conds)
	}
	// cells present in all preds
	res.cells = map[*ssa.Alloc]Val{}
	for c, v0 := range ins[0].st.cells {
		vals := []Val{v0}
		ok := true
		for _, e := range ins[1:] {
			v, has := e.st.cells[c]
			if !has {
				ok = false
				break
			}
			vals = append(vals, v)
		}
		if !ok {
			continue
		}
		res.cells[c] = g.mergeVals(c.Comment, c.Type().(*types.Pointer).Elem(), vals, conds)
	}
	// registers defined on every incoming path
	res.regs = map[ssa.Value]Val{}
	for r, v0 := range ins[0].st.regs {
		vals := []Val{v0}
		ok := true
		same := true
		for _, e := range ins[1:] {
			v, has := e.st.regs[r]
			if !has {
				ok = false
				break
			}
			if same && fmt.Sprint(v) != fmt.Sprint(v0) {
				same = false
			}
			vals = append(vals, v)
		}
		if !ok {
			continue
		}
		if same {
			res.regs[r] = v0
		} else {
			res.regs[r] = g.mergeVals("reg", r.Type(), vals, conds)
		}
	}
	// ghosts
	res.ghosts = map[string]Val{}
	for name, v0 := range ins[0].st.ghosts {
		vals := []Val{v0}
		for _, e := range ins[1:] {
			vals = append(vals, e.st.ghosts[name])
		}
		res.ghosts[name] = g.mergeGhost(name, vals, conds)
	}
	// held
	res.unpub = map[string]bool{}
	for k := range ins[0].st.unpub {
		all := true
		for _, e := range ins[1:] {
			if !e.st.unpub[k] {
				all = false
				break
			}
		}
		if all {
			res.unpub[k] = true
		}
	}
	res.held = map[string]string{}
	for k, t0 := range ins[0].st.held {
		terms := []string{t0}
		for _, e := range ins[1:] {
			t, ok := e.st.held[k]
			if !ok {
				t = "false"
			}
			terms = append(terms, t)
		}
		res.held[k] = g.mergeTerms("held", "Bool", terms, conds)
	}
	// deferred calls: union of the predecessors' lists; an entry is live iff the path that registered it was taken
	{
		same := true
		for _, e := range ins[1:] {
			if len(e.st.defers) != len(ins[0].st.defers) {
				same = false
				break
			}
			for i := range e.st.defers {
				if e.st.defers[i].d != ins[0].st.defers[i].d || e.st.defers[i].guard != ins[0].st.defers[i].guard {
					same = false
				}
			}
		}
		if !same && b != nil {
			var order []*ssa.Defer
			seen := map[*ssa.Defer]bool{}
			for _, e := range ins {
				for _, de := range e.st.defers {
					if !seen[de.d] {
						seen[de.d] = true
						order = append(order, de.d)
					}
				}
			}
			var merged []deferEntry
			for _, d := range order {
				var alts []string
				var vals map[ssa.Value]Val
				for i, e := range ins {
					for _, de := range e.st.defers {
						if de.d == d {
							alts = append(alts, and(conds[i], de.guard))
							vals = de.vals
						}
					}
				}
				merged = append(merged, deferEntry{d, g.defBool("dg", or(alts...)), vals})
			}
			res.defers = merged
		}
	}
	if b != nil {
		g.phis(b, ins, res)
	}
	return res
}

func (g *Gen) phis(b *ssa.BasicBlock, ins []edge, res *State) {
	for _, in := range b.Instrs {
		phi, ok := in.(*ssa.Phi)
		if !ok {
			break
		}
		var vals []Val
		var conds []string
		for _, e := range ins {
			// find index of e.from among b.Preds
			for i, p := range b.Preds {
				if p == e.from {
					vals = append(vals, g.value(e.st, phi.Edges[i]))
					conds = append(conds, e.cond)
					break
				}
			}
		}
		if len(vals) == 0 {
			g.unsupported("phi without incoming value")
		}
		res.regs[phi] = g.mergeVals("phi", phi.Type(), vals, conds)
	}
}

func (g *Gen) mergeTerms(hint, sort string, terms []string, conds []string) string {
	all := true
	for _, t := range terms[1:] {
		if t != terms[0] {
			all = false
		}
	}
	if all {
		return terms[0]
	}
	n := g.fresh(hint, sort)
	for i, t := range terms {
		g.emit("(assert (=> " + conds[i] + " (= " + n + " " + t + ")))")
	}
	return n
}

func (g *Gen) mergeVals(hint string, t types.Type, vals []Val, conds []string) Val {
	// local pointers: must be identical
	if p0, ok := vals[0].(PtrV); ok && p0.Cell != nil {
		for _, v := range vals[1:] {
			p, ok := v.(PtrV)
			if !ok || p.Cell != p0.Cell || len(p.CPath) != len(p0.CPath) {
				g.unsupported("merge of different local pointers")
			}
		}
		return p0
	}
	if f0, ok := vals[0].(FuncV); ok && f0.Fn != nil {
		same := true
		for _, v := range vals[1:] {
			if f, ok := v.(FuncV); !ok || f.Fn != f0.Fn {
				same = false
			}
		}
		if same && len(f0.Binds) == 0 {
			return f0
		}
		if same {
			// same closure with textually identical bindings
			ident := true
			for _, v := range vals[1:] {
				f := v.(FuncV)
				if len(f.Binds) != len(f0.Binds) {
					ident = false
					break
				}
				for i := range f.Binds {
					if fmt.Sprint(f.Binds[i]) != fmt.Sprint(f0.Binds[i]) {
						ident = false
					}
				}
			}
			if ident {
				return f0
			}
		}
	}
	lv := g.leaves(t)
	flat := make([][]string, len(vals))
	for i, v := range vals {
		flat[i] = g.flatten(v, t)
	}
	var merged []string
	for j, l := range lv {
		var ts []string
		for i := range vals {
			ts = append(ts, flat[i][j])
		}
		merged = append(merged, g.mergeTerms(hint+sanitize(l.suffix), l.sort, ts, conds))
	}
	res := g.unflatten(t, &merged)
	// keep heap pointer static info if all agree
	if p0, ok := vals[0].(PtrV); ok {
		rp := res.(PtrV)
		for _, v := range vals[1:] {
			p := v.(PtrV)
			if p.RootKey != p0.RootKey || len(p.Steps) != len(p0.Steps) {
				// nil pointers carry the default root; tolerate when one side is nil literal
				if p.Ref == g.num(0) || p0.Ref == g.num(0) {
					if p0.Ref == g.num(0) {
						p0 = p
					}
					continue
				}
				g.unsupported("merge of pointers into different heap components")
			}
		}
		rp.RootKey, rp.Steps, rp.Elem = p0.RootKey, p0.Steps, p0.Elem
		return rp
	}
	return res
}

func (g *Gen) mergeGhost(name string, vals []Val, conds []string) Val {
	switch v0 := vals[0].(type) {
	case IntV:
		var ts []string
		for _, v := range vals {
			ts = append(ts, v.(IntV).T)
		}
		return IntV{g.mergeTerms("g_"+name, g.intSort(), ts, conds)}
	case BoolV:
		var ts []string
		for _, v := range vals {
			ts = append(ts, v.(BoolV).T)
		}
		return BoolV{g.mergeTerms("g_"+name, "Bool", ts, conds)}
	case StrV:
		var a, o, l []string
		for _, v := range vals {
			s := v.(StrV)
			a, o, l = append(a, s.Arr), append(o, s.Off), append(l, s.Len)
		}
		return StrV{g.mergeTerms("g_"+name, "(Array Int Int)", a, conds), g.mergeTerms("g_"+name, "Int", o, conds), g.mergeTerms("g_"+name, "Int", l, conds)}
	default:
		_ = v0
		g.unsupported("ghost merge")
	}
	return nil
}

func (g *Gen) ghostFresh(typ, hint string) Val {
	switch typ {
	case "int":
		return IntV{g.fresh(hint, g.intSort())}
	case "bool":
		return BoolV{g.fresh(hint, "Bool")}
	case "seq":
		l := g.fresh(hint+"_len", "Int")
		g.emit("(assert (<= 0 " + l + "))")
		return StrV{g.fresh(hint+"_arr", "(Array Int Int)"), "0", l}
	}
	g.unsupported("ghost type " + typ)
	return nil
}

// enterLoop: check invariants on the entry edges, then produce the havocked loop-head state.
func (g *Gen) enterLoop(li *loopInfo, ins []edge) *State {
	for _, e := range ins {
		g.checkInvariants(li, e, "invariant-entry")
	}
	base := g.join(li.head, ins)
	base.unpub = map[string]bool{} // the body may hand any pointer on: nothing stays private across a cut
	return g.havocLoop(li, base)
}

func (g *Gen) checkInvariants(li *loopInfo, e edge, kind string) {
	if li.spec == nil {
		return
	}
	st := e.st.clone()
	st.pc = e.cond
	save := g.curPos
	g.curPos = g.loopPos(li)
	for _, c := range li.spec.Invariants {
		if g.driftedInv[c] {
			continue
		}
		ctx := &specCtx{g: g, st: st, old: g.entry}
		goal, ok := g.evalGoalOrDrift(ctx, c, fmt.Sprintf("loop %d invariant", li.ordinal))
		if !ok {
			continue
		}
		g.oblige(st, kind, c.ID+":"+kind, fmt.Sprintf("loop %d invariant %s (%s)", li.ordinal, c.Src, kind), goal)
	}
	g.curPos = save
}

// evalGoalOrDrift: an invariant that names a local the (changed) code no longer has is contract drift - reported,
// the clause is dropped for this run (neither checked nor assumed) - not a reason to give up the whole function.
func (g *Gen) evalGoalOrDrift(ctx *specCtx, c *Clause, what string) (goal string, ok bool) {
	ok = true
	defer func() {
		if r := recover(); r != nil {
			if u, isU := r.(unsupportedErr); isU && strings.Contains(u.msg, "unknown identifier") {
				ok = false
				if g.driftedInv == nil {
					g.driftedInv = map[*Clause]bool{}
				}
				g.driftedInv[c] = true
				g.anchorNotes = append(g.anchorNotes, what+" `"+c.Src+"` names a variable the code no longer has: "+u.msg)
				return
			}
			panic(r)
		}
	}()
	goal = g.evalGoal(ctx, c.E)
	return
}

func (g *Gen) evalAssumeOrDrift(ctx *specCtx, c *Clause, what string) (a string, ok bool) {
	ok = true
	defer func() {
		if r := recover(); r != nil {
			if u, isU := r.(unsupportedErr); isU && strings.Contains(u.msg, "unknown identifier") {
				ok = false
				if g.driftedInv == nil {
					g.driftedInv = map[*Clause]bool{}
				}
				g.driftedInv[c] = true
				g.anchorNotes = append(g.anchorNotes, what+" `"+c.Src+"` names a variable the code no longer has: "+u.msg)
				return
			}
			panic(r)
		}
	}()
	a = g.evalAssume(ctx, c.E)
	return
}

func (g *Gen) loopPos(li *loopInfo) token.Pos {
	for _, in := range li.head.Instrs {
		if in.Pos().IsValid() {
			return in.Pos()
		}
	}
	return token.NoPos
}

func (g *Gen) havocLoop(li *loopInfo, base *State) *State {
	st := base
	st.mapVer = g.fresh("mapver", "Int")
	li.headHeld = map[string]string{}
	for k, v := range st.held {
		li.headHeld[k] = v
	}
	if g.discovery {
		// havoc everything
		st.heap = map[string]string{}
		g.nfresh++
		st.epoch = fmt.Sprintf("L%d_%d", li.ordinal, g.nfresh)
		st.parents = nil
		st.ac = g.fresh("ac", "Int")
		for name, v := range st.ghosts {
			st.ghosts[name] = g.havocGhost(name, v)
		}
	} else {
		if li.allHeaps {
			kept := map[string]string{}
			if len(li.keep) > 0 {
				for k := range g.heapSorts {
					if g.preservedKey(k, li.keep) && !li.heapKeys[k] {
						kept[k] = g.heapTerm(st, k, g.heapSorts[k])
					}
				}
			}
			st.heap = kept
			g.nfresh++
			st.epoch = fmt.Sprintf("L%d_%d", li.ordinal, g.nfresh)
			st.parents = nil
		} else {
			var ks []string
			for k := range li.heapKeys {
				ks = append(ks, k)
			}
			sort.Strings(ks)
			for _, k := range ks {
				if srt, ok := g.heapSorts[k]; ok {
					st.heap[k] = g.fresh("hl", srt)
				} else {
					// key not yet seen in pass 2: force a distinct lazily-created constant
					delete(st.heap, k)
					g.loopKeyEpoch(st, li, k)
				}
			}
		}
		if li.allocates || li.allHeaps {
			old := st.ac
			st.ac = g.fresh("ac", "Int")
			g.assume(st, "(<= "+old+" "+st.ac+")")
		}
		var gs []string
		for name := range li.ghosts {
			gs = append(gs, name)
		}
		sort.Strings(gs)
		for _, name := range gs {
			if v, ok := st.ghosts[name]; ok {
				st.ghosts[name] = g.havocGhost(name, v)
			}
		}
	}
	// cells
	var cells []*ssa.Alloc
	for c := range li.cells {
		cells = append(cells, c)
	}
	sort.Slice(cells, func(i, j int) bool {
		return cells[i].Pos() < cells[j].Pos() || (cells[i].Pos() == cells[j].Pos() && cells[i].Name() < cells[j].Name())
	})
	for _, c := range cells {
		if _, ok := st.cells[c]; !ok {
			continue
		}
		t := c.Type().(*types.Pointer).Elem()
		if p, ok := st.cells[c].(PtrV); ok && p.Cell != nil {
			g.unsupported("loop modifies a local pointer-to-local " + c.Comment)
		}
		v, inv := g.freshVal(t, "l_"+c.Comment)
		if pv, ok := v.(PtrV); ok {
			if op, ok := st.cells[c].(PtrV); ok {
				pv.RootKey, pv.Steps, pv.Elem = op.RootKey, op.Steps, op.Elem
				v = pv
			}
		}
		st.cells[c] = v
		g.assume(st, inv)
		g.assume(st, g.allocatedInv(st, v, t))
		if c.Comment == "rangeindex" {
			// hidden index of a range loop: starts at -1 and only increments
			if iv, ok := v.(IntV); ok {
				g.assume(st, g.le(g.num(-1), iv.T))
			}
		}
	}
	// phis at a loop head carry values from earlier iterations: unconstrained
	for _, in := range li.head.Instrs {
		phi, ok := in.(*ssa.Phi)
		if !ok {
			break
		}
		v, inv := g.freshVal(phi.Type(), "phi")
		st.regs[phi] = v
		g.assume(st, inv)
		g.assume(st, g.allocatedInv(st, v, phi.Type()))
	}
	// held locks: loops that lock/unlock are handled by requiring the same held state (kept)
	// assume invariants
	if li.spec != nil {
		save := g.curPos
		g.curPos = g.loopPos(li)
		for _, c := range li.spec.Invariants {
			if g.driftedInv[c] {
				continue
			}
			ctx := &specCtx{g: g, st: st, old: g.entry}
			if a, ok := g.evalAssumeOrDrift(ctx, c, fmt.Sprintf("loop %d invariant", li.ordinal)); ok {
				g.assume(st, a)
			}
		}
		g.curPos = save
	}
	if !g.discovery {
		o := &Obligation{Name: fmt.Sprintf("%s/vacuity-loop%d", g.fn.RelString(g.fn.Pkg.Pkg), li.ordinal), Clause: fmt.Sprintf("%s :: vacuity:loop%d", g.fn.RelString(g.fn.Pkg.Pkg), li.ordinal), Kind: "vacuity", Func: g.fn.RelString(g.fn.Pkg.Pkg),
			Desc: "loop invariant is satisfiable at the loop head", prefix: len(g.lines), pc: st.pc, goal: "false", Vacuity: true, Pos: g.posStr(g.loopPos(li))}
		g.obls = append(g.obls, o)
	}
	return st
}

// loopKeyEpoch makes sure a heap key first touched after a loop head gets a constant distinct from the pre-loop one.
func (g *Gen) loopKeyEpoch(st *State, li *loopInfo, key string) {
	// Changing the epoch affects all lazily created keys, which is sound (fresh = unconstrained).
	g.nfresh++
	st.epoch = fmt.Sprintf("L%d_%d", li.ordinal, g.nfresh)
	st.parents = nil
}

func (g *Gen) havocGhost(name string, v Val) Val {
	switch v.(type) {
	case IntV:
		return IntV{g.fresh("g_"+name, g.intSort())}
	case BoolV:
		return BoolV{g.fresh("g_"+name, "Bool")}
	case StrV:
		l := g.fresh("g_"+name+"_len", "Int")
		g.emit("(assert (<= 0 " + l + "))")
		return StrV{g.fresh("g_"+name+"_arr", "(Array Int Int)"), "0", l}
	}
	return v
}

// allocatedInv: every reference in v was allocated before now.
func (g *Gen) allocatedInv(st *State, v Val, t types.Type) string {
	var cs []string
	var rec func(v Val)
	rec = func(v Val) {
		switch x := v.(type) {
		case SliceV:
			cs = append(cs, "(< "+x.Ref+" "+st.ac+")")
		case PtrV:
			if x.Cell == nil {
				cs = append(cs, "(< "+x.Ref+" "+st.ac+")")
			}
		case RefV:
			cs = append(cs, "(< "+x.T+" "+st.ac+")")
		case StructV:
			for _, f := range x.F {
				rec(f)
			}
		case TupleV:
			for _, f := range x.E {
				rec(f)
			}
		}
	}
	rec(v)
	return and(cs...)
}

func (g *Gen) addEdge(from, to *ssa.BasicBlock, st *State, cond string) {
	if g.unroll > 0 {
		k := g.curIter
		if to.Dominates(from) {
			k++ // back edge: next copy
			if k > g.unroll {
				return
			}
		}
		g.uincoming[unode{to, k}] = append(g.uincoming[unode{to, k}], edge{from, st, cond})
		return
	}
	if li := g.loops[to]; li != nil && to.Dominates(from) {
		// back edge: invariant preserved
		g.checkInvariants(li, edge{from, st, cond}, "invariant-preserved")
		if li.spec != nil && len(li.spec.IterEnsures) > 0 {
			s3 := st.clone()
			s3.pc = cond
			save := g.curPos
			g.curPos = g.loopPos(li)
			for _, c := range li.spec.IterEnsures {
				ctx := &specCtx{g: g, st: s3, old: g.entry}
				if g.driftedInv[c] {
					continue
				}
				goal, okc := g.evalGoalOrDrift(ctx, c, fmt.Sprintf("loop %d invariant (iter-ensures)", li.ordinal))
				if !okc {
					continue
				}
				g.oblige(s3, "iter-ensures", c.ID, fmt.Sprintf("loop %d: at the end of every iteration %s", li.ordinal, c.Src), goal)
			}
			g.curPos = save
		}
		if !g.discovery {
			s2 := st.clone()
			s2.pc = cond
			for k, hv := range li.headHeld {
				g.oblige(s2, "lock", "loop lock-state", "lock state at the end of the loop body equals the state at the loop head", eq(g.heldTerm(st, k), hv))
			}
			for k := range st.held {
				if _, ok := li.headHeld[k]; !ok {
					g.oblige(s2, "lock", "loop lock-state", "lock state at the end of the loop body equals the state at the loop head", eq(g.heldTerm(st, k), "false"))
				}
			}
		}
		return
	}
	g.incoming[to] = append(g.incoming[to], edge{from, st, cond})
}

// heldConjuncts returns the arguments of top-level held(...) conjuncts of a precondition.
func heldConjuncts(e Expr) []Expr {
	switch x := e.(type) {
	case *EBin:
		if x.Op == "&&" {
			return append(heldConjuncts(x.L), heldConjuncts(x.R)...)
		}
	case *ECall:
		if x.Fn == "held" && len(x.Args) == 1 {
			return []Expr{x.Args[0]}
		}
	}
	return nil
}

// ---------- concretisation: which terms describe the function's inputs ----------

type inputTerm struct {
	path string
	term string
}

const modelElems = 48 // leading elements of slices / strings read back from a model

func (g *Gen) inputTerms() []inputTerm {
	if g.inputCache != nil {
		return g.inputCache
	}
	var out []inputTerm
	seen := map[string]bool{}
	var walk func(path string, v Val, t types.Type, depth int)
	walk = func(path string, v Val, t types.Type, depth int) {
		switch x := v.(type) {
		case IntV:
			out = append(out, inputTerm{path, x.T})
		case BoolV:
			out = append(out, inputTerm{path, x.T})
		case SliceV:
			out = append(out, inputTerm{path + ".len", x.Len}, inputTerm{path + ".cap", x.Cap}, inputTerm{path + ".nil", "(= " + x.Ref + " 0)"}, inputTerm{path + ".off", x.Off})
			lv := g.leaves(x.Elem)
			if len(lv) == 1 && (lv[0].sort == "Int" || lv[0].sort == "Bool") {
				h := g.heapTerm(g.entry, heapKey(typeKey(x.Elem), nil, lv[0].suffix), nestSort(2, lv[0].sort))
				for i := 0; i < modelElems; i++ {
					out = append(out, inputTerm{fmt.Sprintf("%s[%d]", path, i), fmt.Sprintf("(select (select %s %s) (+ %s %d))", h, x.Ref, x.Off, i)})
				}
			} else if depth < 2 {
				for i := 0; i < 4; i++ {
					p := PtrV{RootKey: typeKey(x.Elem), Ref: x.Ref, Idx: fmt.Sprintf("(+ %s %d)", x.Off, i), Elem: x.Elem}
					walk(fmt.Sprintf("%s[%d]", path, i), g.loadHeap(g.entry, p), x.Elem, depth+1)
				}
			}
		case StrV:
			out = append(out, inputTerm{path + ".len", x.Len}, inputTerm{path + ".off", x.Off})
			for i := 0; i < modelElems; i++ {
				out = append(out, inputTerm{fmt.Sprintf("%s[%d]", path, i), fmt.Sprintf("(select %s (+ %s %d))", x.Arr, x.Off, i)})
			}
		case PtrV:
			if x.Cell != nil || depth >= 3 {
				return
			}
			out = append(out, inputTerm{path + ".nil", "(= " + x.Ref + " 0)"})
			key := x.RootKey + "@" + x.Ref + fmt.Sprint(len(x.Steps))
			if seen[key] {
				return
			}
			seen[key] = true
			if _, ok := x.Elem.Underlying().(*types.Struct); ok {
				walk(path, g.loadHeap(g.entry, x), x.Elem, depth+1)
			}
		case StructV:
			st, ok := t.Underlying().(*types.Struct)
			if !ok {
				return
			}
			for i, f := range x.F {
				walk(path+"."+st.Field(i).Name(), f, st.Field(i).Type(), depth)
			}
		case IfaceV:
			out = append(out, inputTerm{path + ".nil", "(= " + x.Tag + " 0)"})
		}
	}
	save := g.lines
	for i, p := range g.fn.Params {
		walk(p.Name(), g.entryParam(i), p.Type(), 0)
	}
	if g.spec != nil {
		for _, gd := range g.spec.Ghosts {
			if v, ok := g.entry.ghosts[gd.Name]; ok && gd.Init == nil {
				switch x := v.(type) {
				case IntV:
					out = append(out, inputTerm{"ghost:" + gd.Name, x.T})
				case BoolV:
					out = append(out, inputTerm{"ghost:" + gd.Name, x.T})
				}
			}
		}
	}
	// declarations introduced while walking (lazily created entry heaps) must precede the queries: they were
	// appended to g.lines; keep them (they are declarations only)
	_ = save
	g.inputCache = out
	return out
}

func (g *Gen) entryParam(i int) Val {
	p := g.fn.Params[i]
	if v, ok := g.entry.regs[p]; ok {
		return v
	}
	return g.paramVals[p.Name()]
}

// onlyLoadStore: every use of the captured-variable pointer is a direct load or a store through it.
func onlyLoadStore(fv *ssa.FreeVar) bool {
	refs := fv.Referrers()
	if refs == nil {
		return false
	}
	for _, r := range *refs {
		switch x := r.(type) {
		case *ssa.UnOp:
			if x.Op != token.MUL {
				return false
			}
		case *ssa.Store:
			if x.Addr != ssa.Value(fv) || x.Val == ssa.Value(fv) {
				return false
			}
		case *ssa.DebugRef:
		default:
			return false
		}
	}
	return true
}
