package main

import (
	"fmt"
	"go/ast"
	"go/token"
	"go/types"
	"os"
	"path/filepath"
	"sort"
	"strings"

	"golang.org/x/tools/go/packages"
	"golang.org/x/tools/go/ssa"
	"golang.org/x/tools/go/ssa/ssautil"
)

const contractFileName = "zz_verif_contracts.go"

type World struct {
	repo     string
	fset     *token.FileSet
	prog     *ssa.Program
	pkgs     []*packages.Package
	spkgs    []*ssa.Package
	specs    map[string]*FuncSpec // key: pkgpath::relname   or lib full name
	ghosts   map[string]*GhostField
	srcText  map[string][]string
	overlay  map[string][]byte
	rootPkg  map[string]bool
	modPath  string
	monitors map[string]*MonitorSpec // "pkg::Type.field"
	condMon  map[string]*MonitorSpec // "pkg::Type.condfield"
	constErr map[string]bool         // "G:pkg.name" of error variables assigned only by their package initialiser
	specErr  []string
	noAssume     map[string]bool // clause keys (pkg::func :: clause) of open findings: checked, never assumed
	knownFuncs   map[string][]string // package path -> functions that existed on the baseline tree (optional)
	knownSet     map[string]bool
	baseLoopForms map[string][]string // pkg::func -> loop forms (range / for) in baseline ordinal order
	baseLoopSigs map[string][]string // pkg::func -> loop signatures in baseline ordinal order (optional)
}

func loadWorld(repo string, patterns []string, libDir string, overlay map[string][]byte) (*World, error) {
	w := &World{repo: repo, specs: map[string]*FuncSpec{}, ghosts: map[string]*GhostField{}, srcText: map[string][]string{}, overlay: overlay, rootPkg: map[string]bool{}}
	cfg := &packages.Config{
		Mode:       packages.LoadSyntax | packages.NeedModule,
		Dir:        repo,
		BuildFlags: []string{"-tags=verif"},
		Overlay:    overlay,
	}
	pkgs, err := packages.Load(cfg, patterns...)
	if err != nil {
		return nil, err
	}
	for _, p := range pkgs {
		for _, e := range p.Errors {
			return nil, fmt.Errorf("package %s: %v", p.PkgPath, e)
		}
	}
	w.pkgs = pkgs
	for _, p := range pkgs {
		w.rootPkg[p.PkgPath] = true
		if p.Module != nil {
			w.modPath = p.Module.Path
		}
	}
	if w.modPath == "" {
		w.modPath = "github.com/ozontech/file.d"
	}
	if len(pkgs) > 0 {
		w.fset = pkgs[0].Fset
	}
	prog, spkgs := ssautil.Packages(pkgs, ssa.NaiveForm|ssa.GlobalDebug)
	w.prog, w.spkgs = prog, spkgs
	for _, sp := range spkgs {
		if sp != nil {
			sp.Build()
		}
	}
	w.findConstErrGlobals()
	// contract files of the loaded packages
	for _, p := range pkgs {
		for i, f := range p.Syntax {
			name := p.CompiledGoFiles[i]
			if filepath.Base(name) != contractFileName {
				continue
			}
			lines := contractLines(w.fset, f)
			sf, err := parseSpecLines(lines, p.PkgPath, name, false)
			if err != nil {
				return nil, fmt.Errorf("contract file %s: %v", name, err)
			}
			w.addSpecFile(sf, p.PkgPath)
		}
	}
	// contract files of in-module dependencies (their functions are not verified in this run,
	// but callers are checked against their contracts)
	seenPkg := map[string]bool{}
	for _, p := range pkgs {
		seenPkg[p.PkgPath] = true
	}
	var walk func(p *packages.Package)
	walk = func(p *packages.Package) {
		for _, ip := range p.Imports {
			if seenPkg[ip.PkgPath] {
				continue
			}
			seenPkg[ip.PkgPath] = true
			walk(ip)
			if len(ip.GoFiles) == 0 || !strings.HasPrefix(ip.GoFiles[0], repo+"/") {
				continue
			}
			cf := filepath.Join(filepath.Dir(ip.GoFiles[0]), contractFileName)
			data, err := os.ReadFile(cf)
			if err != nil {
				continue
			}
			var lines []specLine
			for i, l := range strings.Split(string(data), "\n") {
				t := strings.TrimSpace(l)
				switch {
				case strings.HasPrefix(t, "//@"):
					lines = append(lines, specLine{t[3:], fmt.Sprintf("%s:%d", contractFileName, i+1)})
				case strings.HasPrefix(t, "// @"):
					lines = append(lines, specLine{t[4:], fmt.Sprintf("%s:%d", contractFileName, i+1)})
				}
			}
			sf, err := parseSpecLines(lines, ip.PkgPath, cf, false)
			if err != nil {
				w.specErr = append(w.specErr, fmt.Sprintf("contract file %s: %v", cf, err))
				continue
			}
			w.addSpecFile(sf, ip.PkgPath)
		}
	}
	for _, p := range pkgs {
		walk(p)
	}
	// library contracts (trusted)
	if libDir != "" {
		files, _ := filepath.Glob(filepath.Join(libDir, "*.spec"))
		sort.Strings(files)
		for _, fn := range files {
			data, err := os.ReadFile(fn)
			if err != nil {
				return nil, err
			}
			var lines []specLine
			for i, l := range strings.Split(string(data), "\n") {
				t := strings.TrimSpace(l)
				if t == "" || strings.HasPrefix(t, "#") {
					continue
				}
				lines = append(lines, specLine{t, fmt.Sprintf("%s:%d", filepath.Base(fn), i+1)})
			}
			sf, err := parseSpecLines(lines, "", fn, true)
			if err != nil {
				return nil, fmt.Errorf("lib contract file %s: %v", fn, err)
			}
			w.addSpecFile(sf, "")
		}
	}
	return w, nil
}

func contractLines(fset *token.FileSet, f *ast.File) []specLine {
	var out []specLine
	for _, cg := range f.Comments {
		for _, c := range cg.List {
			t := c.Text
			var body string
			switch {
			case strings.HasPrefix(t, "//@"):
				body = t[3:]
			case strings.HasPrefix(t, "// @"):
				body = t[4:]
			default:
				continue
			}
			pos := fset.Position(c.Pos())
			out = append(out, specLine{body, fmt.Sprintf("%s:%d", filepath.Base(pos.Filename), pos.Line)})
		}
	}
	return out
}

func (w *World) addSpecFile(sf *SpecFile, pkgPath string) {
	for _, fs := range sf.Funcs {
		key := fs.Name
		if pkgPath != "" {
			key = pkgPath + "::" + fs.Name
		}
		if _, dup := w.specs[key]; dup {
			w.specErr = append(w.specErr, "duplicate contract for "+key)
		}
		w.specs[key] = fs
	}
	for _, gf := range sf.Ghosts {
		w.ghosts[pkgPath+"::"+gf.Type+"."+gf.Field] = gf
	}
	for _, m := range sf.Monitors {
		if w.monitors == nil {
			w.monitors = map[string]*MonitorSpec{}
			w.condMon = map[string]*MonitorSpec{}
		}
		w.monitors[pkgPath+"::"+m.Type+"."+m.Field] = m
		for _, c := range m.Conds {
			w.condMon[pkgPath+"::"+m.Type+"."+c] = m
		}
	}
}

func (w *World) specFor(fn *ssa.Function) *FuncSpec {
	if fn.Pkg != nil {
		if fs, ok := w.specs[fn.Pkg.Pkg.Path()+"::"+fn.RelString(fn.Pkg.Pkg)]; ok {
			return fs
		}
	}
	// library contract: by full name, e.g. bytes.IndexByte or (*sync.Mutex).Lock
	if fs, ok := w.specs[fn.String()]; ok {
		return fs
	}
	if o := fn.Origin(); o != nil {
		if fs, ok := w.specs[o.String()]; ok {
			return fs
		}
	}
	return nil
}

func (w *World) ghostField(t types.Type, field string) *GhostField {
	n, ok := t.(*types.Named)
	if !ok {
		return nil
	}
	pkg := ""
	if n.Obj().Pkg() != nil {
		pkg = n.Obj().Pkg().Path()
	}
	return w.ghosts[pkg+"::"+n.Obj().Name()+"."+field]
}

// functionsUnderContract lists the SSA functions of the loaded packages that have a (non-trusted) contract block.
func (w *World) functionsUnderContract(sweep bool) ([]*ssa.Function, []string) {
	var out []*ssa.Function
	seen := map[*FuncSpec]bool{}
	roots := map[*ssa.Package]bool{}
	for _, sp := range w.spkgs {
		if sp != nil {
			roots[sp] = true
		}
	}
	for fn := range ssautil.AllFunctions(w.prog) {
		if fn.Pkg == nil || !roots[fn.Pkg] || fn.Synthetic != "" {
			continue
		}
		fs, ok := w.specs[fn.Pkg.Pkg.Path()+"::"+fn.RelString(fn.Pkg.Pkg)]
		if !ok && sweep && len(fn.Blocks) > 0 && fn.Parent() == nil && !strings.HasSuffix(w.fset.Position(fn.Pos()).Filename, "_test.go") {
			out = append(out, fn)
			continue
		}
		if !ok || fs.Trusted {
			continue
		}
		seen[fs] = true
		out = append(out, fn)
	}
	sort.Slice(out, func(i, j int) bool { return out[i].String() < out[j].String() })
	var missing []string
	for k, fs := range w.specs {
		if !fs.Trusted && !seen[fs] && w.rootPkg[fs.Pkg] {
			missing = append(missing, k)
		}
	}
	sort.Strings(missing)
	return out, missing
}

func (w *World) sourceLine(p token.Pos) string {
	if !p.IsValid() {
		return ""
	}
	pp := w.fset.Position(p)
	lines, ok := w.srcText[pp.Filename]
	if !ok {
		var data []byte
		if w.overlay != nil {
			data = w.overlay[pp.Filename]
		}
		if data == nil {
			data, _ = os.ReadFile(pp.Filename)
		}
		lines = strings.Split(string(data), "\n")
		w.srcText[pp.Filename] = lines
	}
	if pp.Line-1 < len(lines) && pp.Line >= 1 {
		return strings.Join(strings.Fields(lines[pp.Line-1]), " ")
	}
	return ""
}

// findConstErrGlobals: package-level variables of type error that are assigned only in the
// package initialiser (var errX = errors.New(...)) are constants, and non-nil.
func (w *World) findConstErrGlobals() {
	w.constErr = map[string]bool{}
	errT := types.Universe.Lookup("error").Type()
	for _, sp := range w.spkgs {
		if sp == nil {
			continue
		}
		cand := map[*ssa.Global]bool{}
		for _, m := range sp.Members {
			if gl, ok := m.(*ssa.Global); ok {
				if types.Identical(gl.Type().(*types.Pointer).Elem(), errT) {
					cand[gl] = true
				}
			}
		}
		if len(cand) == 0 {
			continue
		}
		initStored := map[*ssa.Global]bool{}
		for fn := range ssautil.AllFunctions(w.prog) {
			if fn.Pkg != sp {
				continue
			}
			for _, b := range fn.Blocks {
				for _, in := range b.Instrs {
					st, ok := in.(*ssa.Store)
					if !ok {
						continue
					}
					gl, ok := st.Addr.(*ssa.Global)
					if !ok || !cand[gl] {
						continue
					}
					if fn.Name() == "init" && fn.Synthetic != "" {
						// must be the result of a call (errors.New, fmt.Errorf): never nil
						if _, isCall := st.Val.(*ssa.Call); isCall {
							initStored[gl] = true
						} else if _, isMI := st.Val.(*ssa.MakeInterface); isMI {
							initStored[gl] = true
						} else {
							delete(cand, gl)
						}
					} else {
						delete(cand, gl)
					}
				}
			}
		}
		for gl := range cand {
			if initStored[gl] {
				w.constErr["G:"+sp.Pkg.Path()+"."+gl.Name()] = true
			}
		}
	}
}

func namedKey(t types.Type) (string, bool) {
	if p, ok := t.(*types.Pointer); ok {
		t = p.Elem()
	}
	n, ok := t.(*types.Named)
	if !ok {
		return "", false
	}
	pkg := ""
	if n.Obj().Pkg() != nil {
		pkg = n.Obj().Pkg().Path()
	}
	return pkg + "::" + n.Obj().Name(), true
}

// isNewFunc: the function did not exist when the baseline was recorded (a helper the change under test introduced).  Such a
// callee has no contract and could not have one; it is executed in place instead of being abstracted.
func (w *World) isNewFunc(fn *ssa.Function) bool {
	if w.knownFuncs == nil || fn == nil || fn.Pkg == nil || fn.Parent() != nil || len(fn.Blocks) == 0 || fn.Synthetic != "" {
		return false
	}
	path := fn.Pkg.Pkg.Path()
	if _, ok := w.knownFuncs[path]; !ok || !w.rootPkg[path] {
		return false
	}
	if w.knownSet == nil {
		w.knownSet = map[string]bool{}
		for p, l := range w.knownFuncs {
			for _, n := range l {
				w.knownSet[p+"::"+n] = true
			}
		}
	}
	return !w.knownSet[path+"::"+fn.RelString(fn.Pkg.Pkg)]
}

// allRootFuncs lists the named functions (with bodies) of the loaded root packages.
func (w *World) allRootFuncs() map[string][]string {
	out := map[string][]string{}
	for fn := range ssautil.AllFunctions(w.prog) {
		if fn.Pkg == nil || !w.rootPkg[fn.Pkg.Pkg.Path()] || fn.Synthetic != "" || fn.Parent() != nil || len(fn.Blocks) == 0 {
			continue
		}
		if strings.HasSuffix(w.fset.Position(fn.Pos()).Filename, "_test.go") {
			continue
		}
		out[fn.Pkg.Pkg.Path()] = append(out[fn.Pkg.Pkg.Path()], fn.RelString(fn.Pkg.Pkg))
	}
	for _, l := range out {
		sort.Strings(l)
	}
	return out
}
