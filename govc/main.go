package main

import (
	"bytes"
	"context"
	"encoding/json"
	"flag"
	"fmt"
	"os"
	"os/exec"
	"path/filepath"
	"regexp"
	"sort"
	"strings"
	"sync"
	"time"

	"golang.org/x/tools/go/ssa"
)

type FuncResult struct {
	Name         string        `json:"name"`
	Pkg          string        `json:"pkg"`
	SpecFile     string        `json:"spec_file"`
	Mode         string        `json:"mode"`
	Error        string        `json:"error,omitempty"`
	Obligations  []*Obligation `json:"obligations"`
	Abstractions []abstraction `json:"abstractions"`
	Trusted      []string      `json:"trusted"`
	UnusedCallee []string      `json:"unused_callee_clauses,omitempty"`
	UsedSetClauses []string    `json:"used_set_clauses,omitempty"` // call-site clauses that update ghosts and matched a call: when such a call vanishes the ghosts are undefined
	GuardClauses []string      `json:"guard_clauses,omitempty"` // requires of callee clauses no call matches on this tree: they guard calls a change may introduce
	Loops        int           `json:"loops"`
	LoopSigs     []string      `json:"loop_sigs,omitempty"`
	LoopForms    []string      `json:"loop_forms,omitempty"`
	LoopRemap    bool          `json:"loops_remapped,omitempty"`
	LoopsNoInv   []int         `json:"loops_without_invariant,omitempty"`
	Drift        []string      `json:"drift,omitempty"`
	GenMs        float64       `json:"gen_ms"`
	ScriptBytes  int           `json:"script_bytes"`
}

type Result struct {
	Repo      string        `json:"repo"`
	Packages  []string      `json:"packages"`
	Functions []*FuncResult `json:"functions"`
	Missing   []string      `json:"contracts_without_function"`
	RootFuncs map[string][]string `json:"root_funcs,omitempty"`
	SpecErr   []string      `json:"spec_errors"`
	LoadMs    float64       `json:"load_ms"`
	SolveMs   float64       `json:"solve_ms"`
	Solvers   []string      `json:"solvers"`
}

func main() {
	repo := flag.String("repo", "/repo", "repository root")
	pkgsF := flag.String("pkgs", "", "comma separated package patterns (relative to repo)")
	only := flag.String("only", "", "regexp: only functions whose RelString matches")
	out := flag.String("out", "", "result JSON file")
	smtDir := flag.String("smtdir", "", "directory for .smt2 files (kept)")
	lib := flag.String("lib", "/verif/contracts-lib", "directory with trusted library contracts")
	timeout := flag.Float64("timeout", 10, "per-solver timeout in seconds")
	jobs := flag.Int("jobs", 16, "parallel solver jobs")
	overlayF := flag.String("overlay", "", "JSON file mapping absolute file path -> replacement file path")
	dumpOnly := flag.Bool("nosolve", false, "generate only")
	unroll := flag.Int("unroll", 0, "concretisation mode: unroll loops up to N back edges instead of cutting them (finds inputs, proves nothing)")
	sweep := flag.Bool("sweep", false, "zero-annotation sweep: also process functions without a contract (safety obligations only; results are leads, not claims)")
	target := flag.String("target", "", "concretisation mode: only obligations whose clause contains this text and (if given after '@') whose position matches")
	verbose := flag.Bool("v", false, "verbose")
	knownFuncsF := flag.String("knownfuncs", "", "JSON file: package path -> functions present on the baseline tree; a same-package callee without contract that is not listed (a helper introduced by the change) is executed in place")
	noAssumeF := flag.String("noassume", "", "JSON file: list of clause keys (pkg::func :: clause) that are open findings - checked but never assumed")
	loopSigsF := flag.String("loopsigs", "", "JSON file: pkg::func -> loop signatures recorded on the baseline tree (loops that were merely reordered keep their contract ordinals)")
	flag.Parse()

	var overlay map[string][]byte
	if *overlayF != "" {
		data, err := os.ReadFile(*overlayF)
		if err != nil {
			fatal(err)
		}
		m := map[string]string{}
		if err := json.Unmarshal(data, &m); err != nil {
			fatal(err)
		}
		overlay = map[string][]byte{}
		for k, v := range m {
			b, err := os.ReadFile(v)
			if err != nil {
				fatal(err)
			}
			overlay[k] = b
		}
	}

	t0 := time.Now()
	patterns := strings.Split(*pkgsF, ",")
	w, err := loadWorld(*repo, patterns, *lib, overlay)
	if err == nil && *knownFuncsF != "" {
		if data, e := os.ReadFile(*knownFuncsF); e == nil {
			_ = json.Unmarshal(data, &w.knownFuncs)
		}
	}
	if err == nil && *noAssumeF != "" {
		if data, e := os.ReadFile(*noAssumeF); e == nil {
			var l []string
			_ = json.Unmarshal(data, &l)
			w.noAssume = map[string]bool{}
			for _, k := range l {
				w.noAssume[k] = true
			}
		}
	}
	if err == nil && *loopSigsF != "" {
		if data, e := os.ReadFile(*loopSigsF); e == nil {
			_ = json.Unmarshal(data, &w.baseLoopSigs)
		}
		// the forms are kept next to the signatures: <file>.forms
		if data, e := os.ReadFile(*loopSigsF + ".forms"); e == nil {
			_ = json.Unmarshal(data, &w.baseLoopForms)
		}
	}
	if err != nil {
		fatal(err)
	}
	res := &Result{Repo: *repo, Packages: patterns, SpecErr: w.specErr, Solvers: []string{"z3-new", "z3", "cvc5"}}
	res.LoadMs = ms(time.Since(t0))
	fns, missing := w.functionsUnderContract(*sweep)
	res.Missing = missing
	res.RootFuncs = w.allRootFuncs()
	var onlyRe *regexp.Regexp
	if *only != "" {
		onlyRe = regexp.MustCompile(*only)
	}
	dir := *smtDir
	if dir == "" {
		dir, err = os.MkdirTemp("", "govc-smt-")
		if err != nil {
			fatal(err)
		}
		defer os.RemoveAll(dir)
	} else {
		os.MkdirAll(dir, 0o755)
	}
	type job struct {
		o    *Obligation
		file string
	}
	var jobsList []job
	for _, fn := range fns {
		rel := fn.RelString(fn.Pkg.Pkg)
		if onlyRe != nil && !onlyRe.MatchString(rel) {
			continue
		}
		fr := verifyFunction(w, fn, *unroll)
		res.Functions = append(res.Functions, fr)
		if *verbose {
			fmt.Fprintf(os.Stderr, "gen %s: %d obligations, %d abstractions, err=%q\n", rel, len(fr.Obligations), len(fr.Abstractions), fr.Error)
		}
	}
	// write queries
	for _, fr := range res.Functions {
		g := frGen[fr]
		if g == nil {
			continue
		}
		var extraDecl []string
		if *unroll > 0 {
			n0 := len(g.lines)
			g.inputTerms()
			extraDecl = append(extraDecl, g.lines[n0:]...)
		}
		for i, o := range fr.Obligations {
			if o.Trivial {
				continue
			}
			if *unroll > 0 {
				if o.Vacuity || !matchTarget(o, *target) {
					o.Verdict = "skipped"
					continue
				}
			}
			var sb strings.Builder
			sb.WriteString("(set-option :produce-models true)\n(set-logic ALL)\n")
			for _, l := range g.lines[:o.prefix] {
				if *unroll > 0 {
					l = instantiateLine(l)
				}
				sb.WriteString(l)
				sb.WriteByte('\n')
			}
			for _, l := range extraDecl {
				sb.WriteString(l)
				sb.WriteByte('\n')
			}
			if *unroll > 0 {
				// prefer small inputs: slices and strings of at most modelElems elements
				for _, it := range g.inputTerms() {
					if strings.HasSuffix(it.path, ".len") {
						sb.WriteString(fmt.Sprintf("(assert (<= %s %d))\n", it.term, modelElems))
					}
					if strings.HasSuffix(it.path, ".off") {
						sb.WriteString(fmt.Sprintf("(assert (= %s 0))\n", it.term))
					}
				}
			}
			if *unroll > 0 {
				sb.WriteString(instantiateLine("(assert "+o.pc+")") + "\n")
				sb.WriteString(instantiateLine("(assert (not "+o.goal+"))") + "\n")
			} else {
				sb.WriteString("(assert " + o.pc + ")\n")
				sb.WriteString("(assert (not " + o.goal + "))\n")
			}
			sb.WriteString("(check-sat)\n")
			if *unroll > 0 {
				for _, gv := range g.inputTerms() {
					sb.WriteString("(get-value (" + gv.term + "))\n")
				}
				o.inputs = g.inputTerms()
			}
			fname := filepath.Join(dir, fmt.Sprintf("%s_%03d.smt2", sanitize(fr.Pkg+"_"+fr.Name), i))
			if err := os.WriteFile(fname, []byte(sb.String()), 0o644); err != nil {
				fatal(err)
			}
			o.SMTFile = fname
			if sb.Len() > fr.ScriptBytes {
				fr.ScriptBytes = sb.Len()
			}
			jobsList = append(jobsList, job{o, fname})
		}
	}
	if !*dumpOnly {
		t1 := time.Now()
		// stage 1: z3-new alone, short timeout
		t1to := *timeout
		if t1to > 3 {
			t1to = 3
		}
		runParallel(*jobs, len(jobsList), func(i int) {
			j := jobsList[i]
			to := t1to
			if j.o.Vacuity && to > 1.5 {
				to = 1.5
			}
			solveOne(j.o, j.file, []string{"z3-new"}, to)
		})
		// stage 2: race all solvers for the undecided
		var rest []job
		for _, j := range jobsList {
			if j.o.Verdict != "unsat" && j.o.Verdict != "sat" && !j.o.Vacuity {
				rest = append(rest, j)
			}
		}
		par := *jobs / 3
		if par < 1 {
			par = 1
		}
		runParallel(par, len(rest), func(i int) {
			j := rest[i]
			solveOne(j.o, j.file, []string{"z3-new", "z3", "cvc5"}, *timeout)
		})
		res.SolveMs = ms(time.Since(t1))
		// cover clauses: one satisfiable member (some path reaches the anchor with the condition) discharges the clause
		for _, fr := range res.Functions {
			covered := map[string]bool{}
			for _, o := range fr.Obligations {
				if o.Cover && o.Verdict == "sat" {
					covered[o.Clause] = true
				}
			}
			for _, o := range fr.Obligations {
				if !o.Cover {
					continue
				}
				if covered[o.Clause] {
					o.Verdict, o.Output = "unsat", "covered: a path reaches the statement with the condition true"
				} else {
					o.Verdict, o.Output = "uncovered", "no path reaches the statement with the condition true"
				}
			}
		}
		// call-site reachability pairs: "after" unreachable counts only when "before" is reachable
		byName := map[string]*Obligation{}
		for _, fr := range res.Functions {
			for _, o := range fr.Obligations {
				byName[o.Name] = o
			}
		}
		for _, fr := range res.Functions {
			for _, o := range fr.Obligations {
				if o.Vacuity && o.VacPre != "" && o.Verdict == "unsat" {
					if pre := byName[o.VacPre]; pre != nil && pre.Verdict != "sat" {
						o.Verdict = "sat"
						o.Output = "dead path: the point before the call is not reachable either"
					}
				}
			}
			for _, o := range fr.Obligations {
				if o.Vacuity && strings.Contains(o.Name, "/vacuity-call-before@") && o.Verdict != "sat" {
					o.Verdict = "sat" // only the 'after' member of the pair reports
					o.Output = "dead path"
				}
			}
		}
	}
	if *smtDir == "" {
		for _, j := range jobsList {
			j.o.SMTFile = ""
		}
	}
	data, _ := json.MarshalIndent(res, "", " ")
	if *out != "" {
		if err := os.WriteFile(*out, data, 0o644); err != nil {
			fatal(err)
		}
	} else {
		os.Stdout.Write(data)
	}
}

var frGen = map[*FuncResult]*Gen{}

func verifyFunction(w *World, fn *ssa.Function, unroll int) *FuncResult {
	t0 := time.Now()
	spec := w.specFor(fn)
	g := &Gen{W: w, fn: fn, rootFn: fn, spec: spec, fnIDs: map[*ssa.Function]int{}, typeIDs: map[string]int{}, heapSorts: map[string]string{}}
	g.unroll = unroll
	g.reset()
	mode := "int"
	if spec != nil && spec.Options["mode"] == "bv64" {
		g.bv = true
		mode = "bv64"
	}
	fr := &FuncResult{Name: fn.RelString(fn.Pkg.Pkg), Pkg: fn.Pkg.Pkg.Path(), Mode: mode}
	if spec != nil {
		fr.SpecFile = spec.File
	}
	if err := g.run(); err != nil {
		fr.Error = err.Error()
		fr.GenMs = ms(time.Since(t0))
		return fr
	}
	if spec != nil && spec.Options["dead-loops"] != "" {
		// loops the contract's scope excludes (their vacuity check is expected to be unsat)
		dead := map[string]bool{}
		for _, n := range splitList(spec.Options["dead-loops"]) {
			dead["vacuity:loop"+n] = true
		}
		var keep []*Obligation
		for _, o := range g.obls {
			if o.Vacuity && dead[o.Clause[strings.LastIndex(o.Clause, ":: ")+3:]] {
				continue
			}
			keep = append(keep, o)
		}
		g.obls = keep
	}
	fr.Obligations = g.obls
	fr.Abstractions = dedupAbs(g.abstractions)
	fr.Trusted = sortedKeys(g.trustedUsed)
	fr.Loops = len(g.loops)
	fr.LoopSigs = g.loopSigs
	fr.LoopForms = g.loopForms
	fr.LoopRemap = g.loopRemapped
	for _, li := range g.loops {
		if li.spec == nil || len(li.spec.Invariants) == 0 {
			fr.LoopsNoInv = append(fr.LoopsNoInv, li.ordinal)
		}
	}
	sort.Ints(fr.LoopsNoInv)
	if spec != nil {
		have := map[int]bool{}
		for _, li := range g.loops {
			have[li.ordinal] = true
		}
		for n := range spec.Loops {
			if !have[n] {
				// not fatal: the remaining clauses (ensures, callee oracles, safety) are still checked
				fr.Drift = append(fr.Drift, fmt.Sprintf("contract names loop %d but the function has %d loops", n, len(g.loops)))
			}
		}
		fr.Drift = append(fr.Drift, g.anchorNotes...)
		for _, cs := range spec.Callees {
			if g.calleeUse[cs] > 0 && (len(cs.Sets) > 0 || len(cs.MutGhosts) > 0) {
				fr.UsedSetClauses = append(fr.UsedSetClauses, cs.Name)
			}
			if g.calleeUse[cs] == 0 {
				fr.UnusedCallee = append(fr.UnusedCallee, cs.Name)
				for _, c := range cs.Requires {
					fr.GuardClauses = append(fr.GuardClauses, fr.Name+" :: callee "+cs.Name+" "+c.ID)
				}
			}
		}
		// a frame clause is also a guard: "no call with unknown effects here" has no obligation on a tree that has no such
		// call; listing the clause lets the baseline lock it, so that a change which introduces one is reported
		if spec.Modifies != nil || spec.Pure {
			fr.GuardClauses = append(fr.GuardClauses, fr.Name+" :: modifies")
		}
		if len(spec.Preserves) > 0 {
			fr.GuardClauses = append(fr.GuardClauses, fr.Name+" :: preserves")
		}
		for anchor, cl := range spec.SetAts {
			for _, c := range cl {
				if g.setAtUse[c] == 0 {
					fr.Drift = append(fr.Drift, "anchor not found: setat "+anchor)
				}
			}
		}
		for anchor, cl := range spec.Asserts {
			for _, c := range cl {
				if g.assertUse[c] == 0 {
					kind := "assert "
					if strings.HasPrefix(c.Kind, "assume") {
						kind = "assume " // an assumption that was not applied: safety proofs may have rested on it too
					}
					fr.Drift = append(fr.Drift, "anchor not found: "+kind+anchor)
				}
			}
		}
	}
	fr.GenMs = ms(time.Since(t0))
	frGen[fr] = g
	return fr
}

func dedupAbs(a []abstraction) []abstraction {
	seen := map[abstraction]bool{}
	var out []abstraction
	for _, x := range a {
		if !seen[x] {
			seen[x] = true
			out = append(out, x)
		}
	}
	if out == nil {
		out = []abstraction{}
	}
	return out
}

func runParallel(par, n int, f func(i int)) {
	var wg sync.WaitGroup
	sem := make(chan struct{}, par)
	for i := 0; i < n; i++ {
		wg.Add(1)
		sem <- struct{}{}
		go func(i int) {
			defer wg.Done()
			defer func() { <-sem }()
			f(i)
		}(i)
	}
	wg.Wait()
}

func solverCmd(name, file string, timeout float64) *exec.Cmd {
	switch name {
	case "z3-new":
		return exec.Command("z3-new", fmt.Sprintf("-T:%d", int(timeout+1)), file)
	case "z3":
		return exec.Command("z3", fmt.Sprintf("-T:%d", int(timeout+1)), file)
	case "cvc5":
		return exec.Command("cvc5", fmt.Sprintf("--tlimit=%d", int(timeout*1000)), file)
	}
	return nil
}

// solveOne races the given solvers on one query file; first definitive answer wins.
func solveOne(o *Obligation, file string, solvers []string, timeout float64) {
	type ans struct {
		solver  string
		verdict string
		out     string
		ms      float64
	}
	ctx, cancel := context.WithTimeout(context.Background(), time.Duration((timeout+2)*float64(time.Second)))
	defer cancel()
	ch := make(chan ans, len(solvers))
	for _, s := range solvers {
		go func(s string) {
			t0 := time.Now()
			cmd := solverCmd(s, file, timeout)
			c := exec.CommandContext(ctx, cmd.Path, cmd.Args[1:]...)
			var buf bytes.Buffer
			c.Stdout = &buf
			c.Stderr = &buf
			_ = c.Run()
			outS := buf.String()
			first := strings.TrimSpace(strings.SplitN(outS, "\n", 2)[0])
			v := "unknown"
			switch {
			case first == "unsat":
				v = "unsat"
			case first == "sat":
				v = "sat"
			case strings.Contains(first, "timeout") || ctx.Err() != nil:
				v = "timeout"
			case strings.HasPrefix(first, "(error"):
				v = "error"
			}
			ch <- ans{s, v, outS, ms(time.Since(t0))}
		}(s)
	}
	var got []ans
	for range solvers {
		a := <-ch
		got = append(got, a)
		if a.verdict == "unsat" || a.verdict == "sat" {
			cancel()
			o.Verdict, o.Solver, o.Ms = a.verdict, a.solver, a.ms
			if a.verdict == "sat" {
				o.Output = truncate(a.out, 4000)
				if len(o.inputs) > 0 {
					o.Inputs = parseGetValues(a.out, o.inputs)
				}
			}
			return
		}
	}
	// nobody decided
	best := got[0]
	for _, a := range got {
		if a.verdict == "error" {
			best = a
		}
	}
	o.Verdict, o.Solver, o.Ms = best.verdict, best.solver, best.ms
	var outs []string
	for _, a := range got {
		outs = append(outs, a.solver+": "+truncate(strings.TrimSpace(a.out), 600))
	}
	o.Output = strings.Join(outs, "\n")
}

func truncate(s string, n int) string {
	if len(s) > n {
		return s[:n] + "…"
	}
	return s
}

func ms(d time.Duration) float64 { return float64(d.Microseconds()) / 1000 }

func fatal(err error) {
	fmt.Fprintln(os.Stderr, "govc:", err)
	os.Exit(2)
}

func matchTarget(o *Obligation, target string) bool {
	if target == "" {
		return true
	}
	clause, pos := target, ""
	if i := strings.LastIndex(target, "@"); i >= 0 {
		clause, pos = target[:i], target[i+1:]
	}
	if clause != "" && !strings.Contains(o.Clause, clause) {
		return false
	}
	if pos != "" && o.Pos != pos {
		return false
	}
	return true
}

// parseGetValues reads the answers of the (get-value (t)) commands, which come in the order of inputs.
func parseGetValues(out string, inputs []inputTerm) map[string]string {
	res := map[string]string{}
	// join everything after the first line and split on top-level "((" ... "))" groups
	i := strings.Index(out, "\n")
	if i < 0 {
		return res
	}
	rest := out[i+1:]
	var groups []string
	depth := 0
	start := -1
	for k, c := range rest {
		switch c {
		case '(':
			if depth == 0 {
				start = k
			}
			depth++
		case ')':
			depth--
			if depth == 0 && start >= 0 {
				groups = append(groups, rest[start:k+1])
				start = -1
			}
		}
	}
	for k, gtxt := range groups {
		if k >= len(inputs) {
			break
		}
		// ((term value)) : the value is the last top-level element inside the inner parentheses
		inner := strings.TrimSpace(gtxt)
		inner = strings.TrimSuffix(strings.TrimPrefix(inner, "(("), "))")
		val := lastSexp(inner)
		val = strings.ReplaceAll(val, "(- ", "-")
		val = strings.TrimSuffix(val, ")")
		res[inputs[k].path] = strings.TrimSpace(val)
	}
	return res
}

func lastSexp(s string) string {
	s = strings.TrimSpace(s)
	if strings.HasSuffix(s, ")") {
		depth := 0
		for i := len(s) - 1; i >= 0; i-- {
			switch s[i] {
			case ')':
				depth++
			case '(':
				depth--
				if depth == 0 {
					return s[i:]
				}
			}
		}
	}
	if i := strings.LastIndexAny(s, " \t\n"); i >= 0 {
		return s[i+1:]
	}
	return s
}
