package main

// Monitor (lock) invariants: state guarded by one mutex.
//
//   Lock   : havoc the protected locations, assume the invariant, held := true
//   Unlock : prove held and the invariant, held := false
//   Wait   : Unlock ; Lock
//   access to a protected field of the struct: prove held

import (
	"go/token"
	"go/types"
	"strings"

	"golang.org/x/tools/go/ssa"
)

type lockSite struct {
	mon  *MonitorSpec
	base PtrV   // pointer to the struct that owns the mutex
	key  string // held-map key
}

// lockOf finds the monitor a mutex / cond receiver belongs to:  &base.mu   or   *(&base.seqMu)
func (g *Gen) lockOf(st *State, recv ssa.Value, cond bool) *lockSite {
	var fa *ssa.FieldAddr
	switch x := recv.(type) {
	case *ssa.FieldAddr:
		fa = x
	case *ssa.UnOp:
		if x.Op == token.MUL {
			fa, _ = x.X.(*ssa.FieldAddr)
		}
	}
	if fa == nil || g.W.monitors == nil {
		return nil
	}
	nk, ok := namedKey(fa.X.Type())
	if !ok {
		return nil
	}
	stt := fa.X.Type().Underlying().(*types.Pointer).Elem().Underlying().(*types.Struct)
	fname := stt.Field(fa.Field).Name()
	var mon *MonitorSpec
	if cond {
		mon = g.W.condMon[nk+"."+fname]
	} else {
		mon = g.W.monitors[nk+"."+fname]
	}
	if mon == nil {
		return nil
	}
	base, ok := g.value(st, fa.X).(PtrV)
	if !ok || base.Cell != nil {
		return nil
	}
	return &lockSite{mon: mon, base: base, key: g.monKey(base, mon)}
}

func (g *Gen) monKey(base PtrV, mon *MonitorSpec) string {
	return mon.Pkg + "::" + mon.Type + "." + mon.Field + "@" + base.Ref + "," + base.Idx
}

func (g *Gen) monitorInvariant(st *State, ls *lockSite, assume bool, what string) {
	for _, c := range ls.mon.Invariants {
		ctx := &specCtx{g: g, st: st, old: st, binds: map[string]Val{ls.mon.Self: ls.base}, calleeOnly: true}
		if assume {
			g.assume(st, g.evalAssume(ctx, c.E))
		} else {
			t := g.evalGoal(ctx, c.E)
			g.oblige(st, "monitor", "monitor "+ls.mon.Type+"."+ls.mon.Field+" "+c.ID, what+": monitor invariant "+c.Src, t)
		}
	}
}

// havocProtected forgets everything about the protected locations (other threads may have changed them).
func (g *Gen) havocProtected(st *State, ls *lockSite) {
	saveFrame := g.frameOn
	g.frameOn = false
	defer func() { g.frameOn = saveFrame }()
	for _, path := range ls.mon.Protects {
		var e Expr = &EIdent{ls.mon.Self}
		for _, part := range strings.Split(path, ".") {
			e = &ESel{X: e, F: part}
		}
		ctx := &specCtx{g: g, st: st, old: st, binds: map[string]Val{ls.mon.Self: ls.base}, calleeOnly: true}
		for _, it := range g.frameItems(ctx, e) {
			g.havocItem(st, it)
		}
	}
}

func (g *Gen) lockAcquire(st *State, ls *lockSite) {
	g.oblige(st, "lock", "monitor "+ls.mon.Type+"."+ls.mon.Field+" no-double-lock", "lock is not already held by this function (self-deadlock)", not(g.heldTerm(st, ls.key)))
	g.havocProtected(st, ls)
	g.monitorInvariant(st, ls, true, "")
	st.held[ls.key] = "true"
}

func (g *Gen) lockRelease(st *State, ls *lockSite, what string) {
	g.oblige(st, "lock", "monitor "+ls.mon.Type+"."+ls.mon.Field+" held-at-unlock", what+": lock is held", g.heldTerm(st, ls.key))
	g.monitorInvariant(st, ls, false, what)
	st.held[ls.key] = "false"
}

// monitorCall intercepts Lock/Unlock/Wait on monitored mutexes. Returns true when handled.
func (g *Gen) monitorCall(st *State, c *ssa.CallCommon, static *ssa.Function, keys []string) bool {
	if static == nil || len(c.Args) == 0 || g.W.monitors == nil {
		return false
	}
	switch static.String() {
	case "(*sync.Mutex).Lock", "(*sync.RWMutex).Lock", "(*sync.RWMutex).RLock":
		if ls := g.lockOf(st, c.Args[0], false); ls != nil {
			g.lockAcquire(st, ls)
			return true
		}
	case "(*sync.Mutex).Unlock", "(*sync.RWMutex).Unlock", "(*sync.RWMutex).RUnlock":
		if ls := g.lockOf(st, c.Args[0], false); ls != nil {
			g.lockRelease(st, ls, "Unlock")
			return true
		}
	case "(*sync.Cond).Wait":
		if ls := g.lockOf(st, c.Args[0], true); ls != nil {
			// a call-site clause `callee Wait()` may put an oracle (requires) and ghost updates (set) in front of the wait:
			// "whoever sleeps here has registered for the wake-up".  Nothing of it is assumed.
			if g.spec != nil {
				for _, cs := range g.spec.Callees {
					for _, k := range keys {
						if cs.Name == k {
							g.calleeUse[cs]++
							if len(cs.Ensures) > 0 {
								g.unsupported("callee " + cs.Name + ": ensures on a monitored Wait is not supported (requires / set only)")
							}
							g.applyContract(st, contractApp{what: "callee " + cs.Name, binds: map[string]Val{}, requires: cs.Requires, sets: cs.Sets,
								pure: true, rt: types.NewTuple(), clausePrefix: "callee " + cs.Name + " ", ownNames: true, mutGhosts: cs.MutGhosts})
						}
					}
				}
			}
			g.lockRelease(st, ls, "Wait")
			g.lockAcquire(st, ls)
			return true
		}
	}
	return false
}

// checkProtectedAccess: a load/store through base.f where f is a directly protected field needs the lock.
func (g *Gen) checkProtectedAccess(st *State, p PtrV) {
	if g.W.monitors == nil || p.Cell != nil || len(p.Steps) == 0 || g.discovery {
		return
	}
	first := p.Steps[0]
	if first.Idx != "" {
		return
	}
	if st.unpub[p.Ref] {
		// initialisation of an object this path allocated and has not handed to anyone: no other goroutine can hold it
		return
	}
	if g.constructorRef != "" && p.Ref == g.constructorRef {
		g.trustedUsed["option constructor: "+g.rootFn.RelString(g.rootFn.Pkg.Pkg)+" runs before its receiver is shared with other goroutines (lock obligations on the receiver waived; the monitor invariants are proved at its return)"] = true
		return
	}
	for _, mon := range g.W.monitors {
		if typeKeyOfMonitor(mon) != p.RootKey {
			continue
		}
		for _, f := range mon.Protects {
			if f == first.Name {
				base := PtrV{RootKey: p.RootKey, Ref: p.Ref, Idx: p.Idx}
				key := g.monKey(base, mon)
				g.oblige(st, "lock", "monitor "+mon.Type+"."+mon.Field+" held-at-access", "access to "+mon.Type+"."+f+" with "+mon.Field+" held", g.heldTerm(st, key))
			}
		}
	}
}

func typeKeyOfMonitor(m *MonitorSpec) string { return m.Pkg + "." + m.Type }

// heldKeyOfExpr: held(x.mu) in contracts.
func (g *Gen) heldKeyOfExpr(ctx *specCtx, e Expr) string {
	sel, ok := e.(*ESel)
	if !ok {
		g.unsupported("held() expects x.mutexField")
	}
	base, ok := g.evalSpec(ctx, sel.X).(PtrV)
	if !ok || base.Cell != nil {
		g.unsupported("held(): base is not a heap pointer")
	}
	nk, ok2 := namedKey(types.NewPointer(base.Elem))
	if !ok2 {
		g.unsupported("held(): base is not a named struct")
	}
	mon := g.W.monitors[nk+"."+sel.F]
	if mon == nil {
		g.unsupported("held(): no monitor declared for " + nk + "." + sel.F)
	}
	return g.monKey(PtrV{RootKey: base.RootKey, Ref: base.Ref, Idx: base.Idx}, mon)
}

// publish: v is handed to a call, stored into shared memory, sent, captured: every object it points to may now be
// reachable by other goroutines (the monitor rule applies to it from here on).
func (g *Gen) publish(st *State, v Val) {
	if st == nil || len(st.unpub) == 0 || v == nil {
		return
	}
	switch x := v.(type) {
	case PtrV:
		if x.Cell == nil {
			delete(st.unpub, x.Ref)
		}
	case SliceV:
		delete(st.unpub, x.Ref)
	case StructV:
		for _, f := range x.F {
			g.publish(st, f)
		}
	case TupleV:
		for _, f := range x.E {
			g.publish(st, f)
		}
	case IfaceV:
		if x.Conc != nil {
			g.publish(st, x.Conc)
			return
		}
		for k := range st.unpub {
			delete(st.unpub, k)
		}
	case FuncV:
		for _, b := range x.Binds {
			g.publish(st, b)
		}
		if x.Fn == nil {
			for k := range st.unpub {
				delete(st.unpub, k)
			}
		}
	case ArrV:
		// conservatively: an array of pointer-holding elements may hold anything
		if x.N > 0 && !isScalarType(x.Elem) {
			for k := range st.unpub {
				delete(st.unpub, k)
			}
		}
	}
}

func isScalarType(t types.Type) bool {
	switch u := t.Underlying().(type) {
	case *types.Basic:
		return u.Kind() != types.UnsafePointer
	}
	return false
}
