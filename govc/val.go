package main

// Symbolic values, type flattening into scalar leaves, component-split heap.

import (
	"fmt"
	"go/types"
	"strings"

	"golang.org/x/tools/go/ssa"
)

type Val interface{}

type (
	IntV  struct{ T string }
	BoolV struct{ T string }
	RealV struct{ T string }
	// SliceV: a view (Ref, Off, Len, Cap) into the element heap of Elem.
	SliceV struct {
		Ref, Off, Len, Cap string
		Elem               types.Type
	}
	// StrV: immutable byte sequence (Go string, or ghost seq): index i is select(Arr, Off+i).
	StrV struct{ Arr, Off, Len string }
	// PtrV: pointer.  Local: Cell != nil, CPath into the cell's value tree.
	// Heap: RootKey names the component family, Steps the static path below
	// it, Ref/Idx (+ index steps) the dynamic location.
	PtrV struct {
		Cell    *ssa.Alloc
		CPath   []pstep
		RootKey string
		Steps   []pstep
		Ref     string
		Idx     string
		Elem    types.Type // pointee type
	}
	StructV struct {
		F []Val
		T types.Type
	}
	IfaceV struct {
		Tag, Pay string
		Conc     Val        // statically known dynamic value, or nil
		ConcT    types.Type // its type
	}
	RefV struct {
		T   string
		Typ types.Type
	}
	FuncV struct {
		Fn    *ssa.Function
		Binds []Val
		T     string
	}
	TupleV struct{ E []Val }
	// ArrV: fixed-size array held by value: one SMT array per scalar leaf of the element type.
	ArrV struct {
		L    []string
		N    int64
		Elem types.Type
	}
)

type pstep struct {
	Field int
	Name  string
	Idx   string // non-empty => index step
}

type leaf struct {
	suffix string
	sort   string
	typ    types.Type // type of the scalar the leaf belongs to (for invariants)
	role   string     // "", ref, off, len, cap, idx, tag, pay, arr
}

func typeKey(t types.Type) string {
	return types.TypeString(t, nil)
}

func symq(s string) string {
	s = strings.ReplaceAll(s, "|", "!")
	s = strings.ReplaceAll(s, "\\", "!")
	return "|" + s + "|"
}

func isUnsigned(b *types.Basic) bool { return b.Info()&types.IsUnsigned != 0 }

func intBits(t types.Type) (bits int, unsigned bool, ok bool) {
	b, isB := t.Underlying().(*types.Basic)
	if !isB || b.Info()&types.IsInteger == 0 {
		return 0, false, false
	}
	switch b.Kind() {
	case types.Int8:
		return 8, false, true
	case types.Int16:
		return 16, false, true
	case types.Int32:
		return 32, false, true
	case types.Int64, types.Int, types.UntypedInt, types.UntypedRune:
		return 64, false, true
	case types.Uint8:
		return 8, true, true
	case types.Uint16:
		return 16, true, true
	case types.Uint32:
		return 32, true, true
	case types.Uint64, types.Uint, types.Uintptr:
		return 64, true, true
	}
	return 64, false, true
}

// leaves flattens a type into its scalar components.
func (g *Gen) leaves(t types.Type) []leaf {
	switch u := t.Underlying().(type) {
	case *types.Basic:
		switch {
		case u.Info()&types.IsBoolean != 0:
			return []leaf{{"", "Bool", t, ""}}
		case u.Info()&types.IsInteger != 0:
			return []leaf{{"", g.intSort(), t, ""}}
		case u.Info()&types.IsFloat != 0:
			return []leaf{{"", "Real", t, ""}}
		case u.Info()&types.IsString != 0:
			return []leaf{{".arr", "(Array Int Int)", t, "arr"}, {".off", "Int", t, "off"}, {".len", "Int", t, "len"}}
		case u.Kind() == types.UnsafePointer:
			return []leaf{{".ref", "Int", t, "ref"}}
		case u.Kind() == types.UntypedNil:
			return []leaf{{".ref", "Int", t, "ref"}}
		}
		return []leaf{{"", "Int", t, ""}}
	case *types.Slice:
		return []leaf{{".ref", "Int", t, "ref"}, {".off", "Int", t, "off"}, {".len", "Int", t, "len"}, {".cap", "Int", t, "cap"}}
	case *types.Pointer:
		return []leaf{{".ref", "Int", t, "ref"}, {".idx", "Int", t, "idx"}}
	case *types.Struct:
		var out []leaf
		for i := 0; i < u.NumFields(); i++ {
			f := u.Field(i)
			for _, l := range g.leaves(f.Type()) {
				out = append(out, leaf{"." + f.Name() + l.suffix, l.sort, l.typ, l.role})
			}
		}
		return out
	case *types.Interface:
		return []leaf{{".tag", "Int", t, "tag"}, {".pay", "Int", t, "pay"}}
	case *types.Map, *types.Chan, *types.Signature:
		return []leaf{{".ref", "Int", t, "ref"}}
	case *types.Array:
		var out []leaf
		for _, l := range g.leaves(u.Elem()) {
			out = append(out, leaf{"[]" + l.suffix, "(Array Int " + l.sort + ")", l.typ, "arrelem"})
		}
		return out
	case *types.Tuple:
		var out []leaf
		for i := 0; i < u.Len(); i++ {
			for _, l := range g.leaves(u.At(i).Type()) {
				out = append(out, leaf{fmt.Sprintf(".%d", i) + l.suffix, l.sort, l.typ, l.role})
			}
		}
		return out
	case *types.TypeParam:
		return []leaf{{".tp", "Int", t, ""}}
	}
	return []leaf{{"", "Int", t, ""}}
}

func (g *Gen) intSort() string {
	if g.bv {
		return "(_ BitVec 64)"
	}
	return "Int"
}

func (g *Gen) pnum(n int64) string {
	if g.bv {
		return fmt.Sprintf("(_ bv%d 64)", uint64(n))
	}
	return g.num(n)
}

func (g *Gen) num(n int64) string {
	if n < 0 {
		return fmt.Sprintf("(- %d)", -n)
	}
	return fmt.Sprintf("%d", n)
}

// flatten returns the SMT terms of v in leaf order of t.
func (g *Gen) flatten(v Val, t types.Type) []string {
	switch x := v.(type) {
	case IntV:
		return []string{x.T}
	case BoolV:
		return []string{x.T}
	case RealV:
		return []string{x.T}
	case SliceV:
		return []string{x.Ref, x.Off, x.Len, x.Cap}
	case StrV:
		return []string{x.Arr, x.Off, x.Len}
	case PtrV:
		if x.Cell != nil {
			g.unsupported("pointer to local stored in memory or merged")
		}
		return []string{x.Ref, x.Idx}
	case StructV:
		st := t.Underlying().(*types.Struct)
		var out []string
		for i, f := range x.F {
			out = append(out, g.flatten(f, st.Field(i).Type())...)
		}
		return out
	case IfaceV:
		return []string{x.Tag, x.Pay}
	case RefV:
		return []string{x.T}
	case FuncV:
		if x.T == "" {
			x.T = g.funcID(x)
		}
		return []string{x.T}
	case TupleV:
		tt := t.(*types.Tuple)
		var out []string
		for i, e := range x.E {
			out = append(out, g.flatten(e, tt.At(i).Type())...)
		}
		return out
	case ArrV:
		return x.L
	}
	g.unsupported(fmt.Sprintf("flatten %T", v))
	return nil
}

func (g *Gen) funcID(f FuncV) string {
	if f.Fn != nil && len(f.Binds) == 0 {
		id, ok := g.fnIDs[f.Fn]
		if !ok {
			id = len(g.fnIDs) + 1000
			g.fnIDs[f.Fn] = id
		}
		return fmt.Sprintf("%d", id)
	}
	return g.fresh("fn", "Int")
}

// unflatten rebuilds a Val of type t from leaf terms (consumes from *terms).
func (g *Gen) unflatten(t types.Type, terms *[]string) Val {
	take := func() string {
		s := (*terms)[0]
		*terms = (*terms)[1:]
		return s
	}
	switch u := t.Underlying().(type) {
	case *types.Basic:
		switch {
		case u.Info()&types.IsBoolean != 0:
			return BoolV{take()}
		case u.Info()&types.IsInteger != 0:
			return IntV{take()}
		case u.Info()&types.IsFloat != 0:
			return RealV{take()}
		case u.Info()&types.IsString != 0:
			a, o, l := take(), take(), take()
			return StrV{a, o, l}
		case u.Kind() == types.UnsafePointer, u.Kind() == types.UntypedNil:
			return RefV{take(), t}
		}
		return IntV{take()}
	case *types.Slice:
		r, o, l, c := take(), take(), take(), take()
		return SliceV{r, o, l, c, u.Elem()}
	case *types.Pointer:
		r, i := take(), take()
		return PtrV{RootKey: typeKey(u.Elem()), Ref: r, Idx: i, Elem: u.Elem()}
	case *types.Struct:
		sv := StructV{T: t}
		for i := 0; i < u.NumFields(); i++ {
			sv.F = append(sv.F, g.unflatten(u.Field(i).Type(), terms))
		}
		return sv
	case *types.Interface:
		tg, p := take(), take()
		return IfaceV{Tag: tg, Pay: p}
	case *types.Map, *types.Chan:
		return RefV{take(), t}
	case *types.Signature:
		return FuncV{T: take()}
	case *types.Array:
		av := ArrV{N: u.Len(), Elem: u.Elem()}
		for range g.leaves(u.Elem()) {
			av.L = append(av.L, take())
		}
		return av
	case *types.Tuple:
		tv := TupleV{}
		for i := 0; i < u.Len(); i++ {
			tv.E = append(tv.E, g.unflatten(u.At(i).Type(), terms))
		}
		return tv
	}
	return IntV{take()}
}

func zeroOfSort(g *Gen, sort string) string {
	switch sort {
	case "Bool":
		return "false"
	case "Int":
		return "0"
	case "Real":
		return "0.0"
	case "(_ BitVec 64)":
		return "(_ bv0 64)"
	}
	if strings.HasPrefix(sort, "(Array Int ") {
		inner := sort[len("(Array Int ") : len(sort)-1]
		return "((as const " + sort + ") " + zeroOfSort(g, inner) + ")"
	}
	return "0"
}

func (g *Gen) zeroVal(t types.Type) Val {
	var terms []string
	for _, l := range g.leaves(t) {
		terms = append(terms, zeroOfSort(g, l.sort))
	}
	return g.unflatten(t, &terms)
}

// freshVal makes an unconstrained value of type t and returns its type invariant.
func (g *Gen) freshVal(t types.Type, hint string) (Val, string) {
	var terms []string
	for _, l := range g.leaves(t) {
		terms = append(terms, g.fresh(hint+sanitize(l.suffix), l.sort))
	}
	cp := append([]string(nil), terms...)
	v := g.unflatten(t, &cp)
	return v, g.typeInv(v, t)
}

func sanitize(s string) string {
	r := strings.NewReplacer(".", "_", "[", "_", "]", "_", " ", "_", "*", "p", "/", "_", "(", "_", ")", "_", ",", "_", "{", "_", "}", "_", ";", "_")
	return r.Replace(s)
}

// typeInv returns the facts the Go type system guarantees about v.
func (g *Gen) typeInv(v Val, t types.Type) string {
	var cs []string
	g.typeInvRec(v, t, &cs)
	return and(cs...)
}

func (g *Gen) typeInvRec(v Val, t types.Type, cs *[]string) {
	switch x := v.(type) {
	case IntV:
		if g.bv {
			// narrow types are kept zero/sign-extended in 64 bits
			if bits, uns, ok := intBits(t); ok && bits < 64 {
				if uns {
					*cs = append(*cs, fmt.Sprintf("(bvule %s (_ bv%d 64))", x.T, (uint64(1)<<uint(bits))-1))
				} else {
					*cs = append(*cs, fmt.Sprintf("(= %s ((_ sign_extend %d) ((_ extract %d 0) %s)))", x.T, 64-bits, bits-1, x.T))
				}
			}
			return
		}
		if bits, uns, ok := intBits(t); ok {
			if uns {
				*cs = append(*cs, "(<= 0 "+x.T+")")
				if bits < 64 {
					*cs = append(*cs, fmt.Sprintf("(<= %s %d)", x.T, (int64(1)<<uint(bits))-1))
				} else {
					*cs = append(*cs, "(<= "+x.T+" 18446744073709551615)")
				}
			} else {
				if bits < 64 {
					*cs = append(*cs, fmt.Sprintf("(<= (- %d) %s)", int64(1)<<uint(bits-1), x.T), fmt.Sprintf("(<= %s %d)", x.T, (int64(1)<<uint(bits-1))-1))
				} else {
					*cs = append(*cs, "(<= (- 9223372036854775808) "+x.T+")", "(<= "+x.T+" 9223372036854775807)")
				}
			}
		}
	case SliceV:
		*cs = append(*cs, g.le(g.num(0), x.Ref), g.le(g.num(0), x.Off), g.le(g.num(0), x.Len), g.le(x.Len, x.Cap),
			"(=> (= "+x.Ref+" "+g.num(0)+") (= "+x.Cap+" "+g.num(0)+"))")
	case StrV:
		*cs = append(*cs, g.le(g.num(0), x.Off), g.le(g.num(0), x.Len))
	case PtrV:
		if x.Cell == nil {
			*cs = append(*cs, g.le(g.num(0), x.Ref), g.le(g.num(0), x.Idx))
		}
	case StructV:
		st := t.Underlying().(*types.Struct)
		for i, f := range x.F {
			g.typeInvRec(f, st.Field(i).Type(), cs)
		}
	case IfaceV:
		*cs = append(*cs, g.le(g.num(0), x.Tag))
	case RefV:
		*cs = append(*cs, g.le(g.num(0), x.T))
	case TupleV:
		tt := t.(*types.Tuple)
		for i, e := range x.E {
			g.typeInvRec(e, tt.At(i).Type(), cs)
		}
	}
}

// le, lt, add, sub, num: structural integers (references, offsets, lengths) - always SMT Int.
func (g *Gen) le(a, b string) string { return "(<= " + a + " " + b + ")" }
func (g *Gen) lt(a, b string) string { return "(< " + a + " " + b + ")" }

// ple: comparison of program integers (bit-vectors in bv64 mode)
func (g *Gen) ple(a, b string) string {
	if g.bv {
		return "(bvsle " + a + " " + b + ")"
	}
	return "(<= " + a + " " + b + ")"
}
func (g *Gen) add(a, b string) string {
	if b == "0" {
		return a
	}
	if a == "0" {
		return b
	}
	return "(+ " + a + " " + b + ")"
}
func (g *Gen) sub(a, b string) string {
	if b == "0" {
		return a
	}
	return "(- " + a + " " + b + ")"
}

func and(cs ...string) string {
	var out []string
	for _, c := range cs {
		if c == "true" || c == "" {
			continue
		}
		if c == "false" {
			return "false"
		}
		out = append(out, c)
	}
	switch len(out) {
	case 0:
		return "true"
	case 1:
		return out[0]
	}
	return "(and " + strings.Join(out, " ") + ")"
}

func or(cs ...string) string {
	var out []string
	for _, c := range cs {
		if c == "false" || c == "" {
			continue
		}
		if c == "true" {
			return "true"
		}
		out = append(out, c)
	}
	switch len(out) {
	case 0:
		return "false"
	case 1:
		return out[0]
	}
	return "(or " + strings.Join(out, " ") + ")"
}

func not(c string) string {
	if c == "true" {
		return "false"
	}
	if c == "false" {
		return "true"
	}
	return "(not " + c + ")"
}

func implies(a, b string) string {
	if a == "true" {
		return b
	}
	if b == "true" || a == "false" {
		return "true"
	}
	return "(=> " + a + " " + b + ")"
}

func eq(a, b string) string {
	if a == b {
		return "true"
	}
	return "(= " + a + " " + b + ")"
}

func ite(c, a, b string) string {
	if c == "true" {
		return a
	}
	if c == "false" {
		return b
	}
	if a == b {
		return a
	}
	return "(ite " + c + " " + a + " " + b + ")"
}

// ---------- heap ----------

func heapKey(root string, steps []pstep, suffix string) string {
	var sb strings.Builder
	sb.WriteString(root)
	for _, s := range steps {
		if s.Idx != "" {
			sb.WriteString("[]")
		} else {
			sb.WriteString("." + s.Name)
		}
	}
	sb.WriteString(suffix)
	return sb.String()
}

func nestSort(levels int, inner string) string {
	s := inner
	for i := 0; i < levels; i++ {
		s = "(Array Int " + s + ")"
	}
	return s
}

func nestSelect(h string, idx []string) string {
	for _, i := range idx {
		h = "(select " + h + " " + i + ")"
	}
	return h
}

func nestStore(h string, idx []string, v string) string {
	if len(idx) == 0 {
		return v
	}
	return "(store " + h + " " + idx[0] + " " + nestStore("(select "+h+" "+idx[0]+")", idx[1:], v) + ")"
}

// heapTerm returns the current term of heap component key (creating the
// epoch's initial constant lazily).
func (g *Gen) heapTerm(st *State, key, sort string) string {
	if t, ok := st.heap[key]; ok {
		return t
	}
	if old, ok := g.heapSorts[key]; ok && old != sort {
		g.unsupported("heap component " + key + " used at two sorts: " + old + " / " + sort)
	}
	g.heapSorts[key] = sort
	if g.immutableKey(key) {
		// package-level variables of packages outside the module (io.EOF, ...) are treated as constants
		name := symq("H:" + key + "@const")
		if !g.declared[name] {
			g.declared[name] = true
			g.emit("(declare-const " + name + " " + sort + ")")
			if strings.HasSuffix(key, ".tag") && g.W.constErr[strings.TrimSuffix(key, ".tag")] {
				g.emit("(assert (not (= (select (select " + name + " 1) 0) 0)))")
			}
			if !g.discovery {
				g.trustedUsed["immutable package variable: "+strings.TrimPrefix(key, "G:")] = true
			}
		}
		return name
	}
	if len(st.parents) > 0 {
		var terms, conds []string
		for _, pr := range st.parents {
			terms = append(terms, g.heapTerm(pr.st, key, sort))
			conds = append(conds, pr.cond)
		}
		t := g.mergeTerms("h", sort, terms, conds)
		st.heap[key] = t
		return t
	}
	name := symq("H:" + key + "@" + st.epoch)
	if !g.declared[name] {
		g.declared[name] = true
		g.emit("(declare-const " + name + " " + sort + ")")
	}
	st.heap[key] = name
	return name
}

func (g *Gen) setHeap(st *State, key, sort, term string) {
	g.heapSorts[key] = sort
	// name the new heap so terms stay small
	n := g.fresh("h", sort)
	g.emit("(assert (= " + n + " " + term + "))")
	st.heap[key] = n
	g.noteWrite(key)
}

func (p PtrV) indexTerms() []string {
	idx := []string{p.Ref, p.Idx}
	for _, s := range p.Steps {
		if s.Idx != "" {
			idx = append(idx, s.Idx)
		}
	}
	return idx
}

// heapLeafSort: leaf sort stripped of the array levels introduced by index steps already applied.
func (g *Gen) loadHeap(st *State, p PtrV) Val {
	idx := p.indexTerms()
	var terms []string
	for _, l := range g.leaves(p.Elem) {
		key := heapKey(p.RootKey, p.Steps, l.suffix)
		h := g.heapTerm(st, key, nestSort(len(idx), l.sort))
		terms = append(terms, nestSelect(h, idx))
	}
	return g.unflatten(p.Elem, &terms)
}

func (g *Gen) storeHeap(st *State, p PtrV, v Val) {
	idx := p.indexTerms()
	terms := g.flatten(v, p.Elem)
	for i, l := range g.leaves(p.Elem) {
		key := heapKey(p.RootKey, p.Steps, l.suffix)
		sort := nestSort(len(idx), l.sort)
		h := g.heapTerm(st, key, sort)
		g.checkFrame(st, key, p.Ref, p.Idx)
		g.setHeap(st, key, sort, nestStore(h, idx, terms[i]))
	}
}

// ---------- local cells ----------

func (g *Gen) cellGet(v Val, path []pstep) Val {
	for _, s := range path {
		switch x := v.(type) {
		case StructV:
			v = x.F[s.Field]
		case ArrV:
			var terms []string
			for _, a := range x.L {
				terms = append(terms, "(select "+a+" "+s.Idx+")")
			}
			v = g.unflatten(x.Elem, &terms)
		default:
			g.unsupported(fmt.Sprintf("cell path through %T", v))
		}
	}
	return v
}

func (g *Gen) cellSet(v Val, path []pstep, nv Val) Val {
	if len(path) == 0 {
		return nv
	}
	s := path[0]
	switch x := v.(type) {
	case StructV:
		nf := append([]Val(nil), x.F...)
		nf[s.Field] = g.cellSet(x.F[s.Field], path[1:], nv)
		return StructV{F: nf, T: x.T}
	case ArrV:
		cur := g.cellGet(x, path[:1])
		upd := g.cellSet(cur, path[1:], nv)
		terms := g.flatten(upd, x.Elem)
		na := ArrV{N: x.N, Elem: x.Elem}
		for i, a := range x.L {
			na.L = append(na.L, "(store "+a+" "+s.Idx+" "+terms[i]+")")
		}
		return na
	}
	g.unsupported(fmt.Sprintf("cell store through %T", v))
	return nil
}

func structFieldIndex(t types.Type, name string) (int, types.Type, bool) {
	st, ok := t.Underlying().(*types.Struct)
	if !ok {
		return 0, nil, false
	}
	for i := 0; i < st.NumFields(); i++ {
		if st.Field(i).Name() == name {
			return i, st.Field(i).Type(), true
		}
	}
	return 0, nil, false
}

func (g *Gen) immutableKey(key string) bool {
	if !strings.HasPrefix(key, "G:") {
		return false
	}
	if !strings.HasPrefix(key[2:], g.W.modPath) {
		return true
	}
	base := strings.TrimSuffix(strings.TrimSuffix(key, ".tag"), ".pay")
	return g.W.constErr[base]
}

// elemIdx is the block index of element i of a view starting at off.  It is written with an
// uninterpreted function idx(off, i) = off + i (axiom instantiated per term) so that E-matching sees the
// element index i as a sub-term instead of an arithmetic sum that the solver flattens.
func (g *Gen) elemIdx(off, i string) string {
	if off == "0" {
		return i
	}
	if i == "0" {
		return off
	}
	if g.unroll > 0 {
		return "(+ " + off + " " + i + ")"
	}
	if !g.declared["idx"] {
		g.declared["idx"] = true
		g.emit("(declare-fun idx (Int Int) Int)")
		g.emit("(assert (forall ((o Int) (i Int)) (! (= (idx o i) (+ o i)) :pattern ((idx o i)))))")
	}
	return "(idx " + off + " " + i + ")"
}

// mapLen: len(m) of a Go map is an uninterpreted function of the map and the current map version.
func (g *Gen) mapLen(st *State, ref string) string {
	if !g.declared["maplen"] {
		g.declared["maplen"] = true
		g.emit("(declare-fun maplen (Int Int) Int)")
		g.emit("(assert (forall ((m Int) (v Int)) (! (<= 0 (maplen m v)) :pattern ((maplen m v)))))")
	}
	return "(maplen " + ref + " " + st.mapVer + ")"
}

func (g *Gen) bumpMaps(st *State) {
	st.mapVer = g.fresh("mapver", "Int")
}
