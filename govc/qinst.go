package main

// Concretisation mode only: quantifier instantiation at the text level.
//
// With quantified assumptions (library contracts such as bytes.IndexByte, append/copy block axioms) the
// solvers answer "unknown" or time out on satisfiable queries, so no model reaches the replay step.  In
// concretisation mode the inputs are limited to qinstN elements at offset 0, every index the code can touch
// is a small constant, and an assumed (forall ((k Int)) body) can be replaced by the conjunction of its
// instances body[k:=0..qinstN-1].  This WEAKENS the assumptions (a forall implies its instances), so a
// model of the weakened query is only a candidate; it is believed only if the real code fails on it when
// replayed.  Quantifiers in goal position (negative polarity) are left to the solver (skolemised).

import (
	"strconv"
	"strings"
)

const qinstN = 64
const qinstN2 = 14

type sx struct {
	atom string
	list []*sx
}

func (s *sx) isList() bool { return s.atom == "" }

func parseSx(src string) []*sx {
	var stack [][]*sx
	cur := []*sx{}
	i := 0
	for i < len(src) {
		c := src[i]
		switch {
		case c == ' ' || c == '\n' || c == '\t' || c == '\r':
			i++
		case c == ';':
			for i < len(src) && src[i] != '\n' {
				i++
			}
		case c == '(':
			stack = append(stack, cur)
			cur = []*sx{}
			i++
		case c == ')':
			n := &sx{list: cur}
			if cur == nil {
				n.list = []*sx{}
			}
			if len(stack) == 0 {
				return nil
			}
			cur = append(stack[len(stack)-1], n)
			stack = stack[:len(stack)-1]
			i++
		case c == '|':
			j := strings.IndexByte(src[i+1:], '|')
			if j < 0 {
				return nil
			}
			cur = append(cur, &sx{atom: src[i : i+j+2]})
			i += j + 2
		case c == '"':
			j := i + 1
			for j < len(src) && src[j] != '"' {
				j++
			}
			cur = append(cur, &sx{atom: src[i : j+1]})
			i = j + 1
		default:
			j := i
			for j < len(src) && !strings.ContainsRune(" \n\t\r()", rune(src[j])) {
				j++
			}
			cur = append(cur, &sx{atom: src[i:j]})
			i = j
		}
	}
	if len(stack) != 0 {
		return nil
	}
	return cur
}

func (s *sx) write(sb *strings.Builder) {
	if !s.isList() {
		sb.WriteString(s.atom)
		return
	}
	sb.WriteByte('(')
	for i, c := range s.list {
		if i > 0 {
			sb.WriteByte(' ')
		}
		c.write(sb)
	}
	sb.WriteByte(')')
}

func (s *sx) head() string {
	if s.isList() && len(s.list) > 0 && !s.list[0].isList() {
		return s.list[0].atom
	}
	return ""
}

func substSx(s *sx, env map[string]string) *sx {
	if !s.isList() {
		if v, ok := env[s.atom]; ok {
			return &sx{atom: v}
		}
		return s
	}
	h := s.head()
	if h == "forall" || h == "exists" || h == "let" {
		// shadowing: drop rebound names
		if len(s.list) >= 3 && s.list[1].isList() {
			var shadow []string
			for _, b := range s.list[1].list {
				if b.isList() && len(b.list) > 0 && !b.list[0].isList() {
					if _, ok := env[b.list[0].atom]; ok {
						shadow = append(shadow, b.list[0].atom)
					}
				}
			}
			if len(shadow) > 0 {
				env2 := map[string]string{}
				for k, v := range env {
					env2[k] = v
				}
				// let-bound expressions still see the outer env
				out := &sx{list: make([]*sx, len(s.list))}
				out.list[0] = s.list[0]
				if h == "let" {
					out.list[1] = substSx(s.list[1], env)
				} else {
					out.list[1] = s.list[1]
				}
				for _, n := range shadow {
					delete(env2, n)
				}
				for i := 2; i < len(s.list); i++ {
					out.list[i] = substSx(s.list[i], env2)
				}
				return out
			}
		}
	}
	out := &sx{list: make([]*sx, len(s.list))}
	changed := false
	for i, c := range s.list {
		out.list[i] = substSx(c, env)
		if out.list[i] != c {
			changed = true
		}
	}
	if !changed {
		return s
	}
	return out
}

// stripAnnot removes (! t :pattern ...) wrappers.
func stripAnnot(s *sx) *sx {
	for s.head() == "!" && len(s.list) >= 2 {
		s = s.list[1]
	}
	return s
}

// qinst rewrites s, which occurs with the given polarity (+1 assumed true, -1 assumed false, 0 unknown).
func qinst(s *sx, pol int) *sx {
	if !s.isList() || len(s.list) == 0 {
		return s
	}
	h := s.head()
	mapKids := func(from int, p func(i int) int) *sx {
		out := &sx{list: make([]*sx, len(s.list))}
		copy(out.list, s.list[:from])
		for i := from; i < len(s.list); i++ {
			out.list[i] = qinst(s.list[i], p(i))
		}
		return out
	}
	switch h {
	case "assert":
		return mapKids(1, func(int) int { return 1 })
	case "not":
		return mapKids(1, func(int) int { return -pol })
	case "and", "or":
		return mapKids(1, func(int) int { return pol })
	case "=>":
		n := len(s.list)
		return mapKids(1, func(i int) int {
			if i == n-1 {
				return pol
			}
			return -pol
		})
	case "ite":
		return mapKids(1, func(i int) int {
			if i == 1 {
				return 0
			}
			return pol
		})
	case "=":
		// (= pc!N X): path conditions occur positively in every query, X may be weakened with them
		if len(s.list) == 3 && !s.list[1].isList() && strings.HasPrefix(s.list[1].atom, "pc!") {
			return &sx{list: []*sx{s.list[0], s.list[1], qinst(s.list[2], pol)}}
		}
		return s
	case "!":
		return qinst(s.list[1], pol)
	case "let":
		if len(s.list) == 3 {
			out := &sx{list: []*sx{s.list[0], s.list[1], qinst(s.list[2], pol)}}
			return out
		}
		return s
	case "forall", "exists":
		if len(s.list) != 3 || !s.list[1].isList() {
			return s
		}
		if (h == "forall" && pol != 1) || (h == "exists" && pol != -1) {
			return s
		}
		var vars []string
		for _, b := range s.list[1].list {
			if !b.isList() || len(b.list) != 2 || b.list[1].atom != "Int" {
				return s
			}
			vars = append(vars, b.list[0].atom)
		}
		body := qinst(stripAnnot(s.list[2]), pol)
		n := qinstN
		if len(vars) == 2 {
			n = qinstN2
		} else if len(vars) > 2 {
			return s
		}
		conn := "and"
		if h == "exists" {
			conn = "or"
		}
		out := &sx{list: []*sx{{atom: conn}}}
		if len(vars) == 1 {
			for k := 0; k < n; k++ {
				out.list = append(out.list, substSx(body, map[string]string{vars[0]: strconv.Itoa(k)}))
			}
		} else {
			for a := 0; a < n; a++ {
				for b := 0; b < n; b++ {
					out.list = append(out.list, substSx(body, map[string]string{vars[0]: strconv.Itoa(a), vars[1]: strconv.Itoa(b)}))
				}
			}
		}
		return out
	}
	return s
}

// instantiateLine rewrites one top-level command; anything that is not an (assert ...) with a quantifier is returned unchanged.
func instantiateLine(line string) string {
	if !strings.Contains(line, "(forall ") && !strings.Contains(line, "(exists ") {
		return line
	}
	if !strings.HasPrefix(strings.TrimSpace(line), "(assert") {
		return line
	}
	forms := parseSx(line)
	if forms == nil {
		return line
	}
	var sb strings.Builder
	for i, f := range forms {
		if i > 0 {
			sb.WriteByte('\n')
		}
		qinst(f, 1).write(&sb)
	}
	return sb.String()
}
