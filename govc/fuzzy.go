package main

// Approximate anchoring.  `assert at|after`, `assume at`, `setat` clauses are tied to a statement by quoting its
// source text.  When the quoted text no longer occurs in the function (the statement itself was edited), the
// clause would silently stop being checked; instead the line of the function that is most similar to the quoted
// text is used, provided the match is strong and unambiguous.  The substitution is reported (Drift).

import (
	"fmt"
	"go/ast"
	"strings"
	"unicode"
)

func tokenize(s string) []string {
	var out []string
	cur := ""
	flush := func() {
		if cur != "" {
			out = append(out, cur)
			cur = ""
		}
	}
	for _, r := range s {
		switch {
		case unicode.IsLetter(r) || unicode.IsDigit(r) || r == '_':
			cur += string(r)
		case unicode.IsSpace(r):
			flush()
		default:
			flush()
			out = append(out, string(r))
		}
	}
	flush()
	return out
}

func lcsLen(a, b []string) int {
	prev := make([]int, len(b)+1)
	cur := make([]int, len(b)+1)
	for i := 1; i <= len(a); i++ {
		for j := 1; j <= len(b); j++ {
			if a[i-1] == b[j-1] {
				cur[j] = prev[j-1] + 1
			} else if prev[j] >= cur[j-1] {
				cur[j] = prev[j]
			} else {
				cur[j] = cur[j-1]
			}
		}
		prev, cur = cur, prev
	}
	return prev[len(b)]
}

// similarity of an anchor to a source line: share of the anchor's tokens found, in order, in the line,
// damped by how much else the line contains.
func similarity(anchor, line string) float64 {
	a, l := tokenize(anchor), tokenize(line)
	if len(a) == 0 || len(l) == 0 {
		return 0
	}
	n := float64(lcsLen(a, l))
	return 2 * n / float64(len(a)+len(l))
}

// resolveAnchors fills g.fuzzy for the anchors of the current function's contract that do not occur literally.
func (g *Gen) resolveAnchors() {
	g.fuzzy = map[string]string{}
	if g.spec == nil || g.fn == nil {
		return
	}
	syn := g.fn.Syntax()
	if syn == nil {
		return
	}
	var body ast.Node = syn
	start := g.W.fset.Position(body.Pos())
	end := g.W.fset.Position(body.End())
	if !start.IsValid() || !end.IsValid() {
		return
	}
	g.W.sourceLine(body.Pos()) // make sure the file is loaded
	lines := g.W.srcText[start.Filename]
	if lines == nil || end.Line > len(lines) {
		return
	}
	fnLines := lines[start.Line-1 : end.Line]
	var anchors []string
	for a := range g.spec.Asserts {
		anchors = append(anchors, a)
	}
	for a := range g.spec.SetAts {
		anchors = append(anchors, a)
	}
	for _, a := range anchors {
		found := false
		for _, l := range fnLines {
			if strings.Contains(l, a) {
				found = true
				break
			}
		}
		if found || len(tokenize(a)) < 4 {
			continue
		}
		best, second := 0.0, 0.0
		bestLine := ""
		for _, l := range fnLines {
			t := strings.TrimSpace(l)
			if t == "" || strings.HasPrefix(t, "//") {
				continue
			}
			s := similarity(a, t)
			if s > best {
				second = best
				best, bestLine = s, t
			} else if s > second {
				second = s
			}
		}
		if best >= 0.72 && best-second >= 0.12 {
			g.fuzzy[a] = bestLine
			g.anchorNotes = append(g.anchorNotes, fmt.Sprintf("anchor %q not found literally; matched approximately (%.2f) to %q", a, best, bestLine))
		}
	}
}

// anchorIn: does the source line carry the anchor (literally, or as its approximate match)?
func (g *Gen) anchorIn(line, anchor string) bool {
	if strings.Contains(line, anchor) {
		return true
	}
	if f, ok := g.fuzzy[anchor]; ok && strings.TrimSpace(line) == f {
		return true
	}
	return false
}
