package main

// Contract language: lexer, expression parser, contract-file reader.
//
// Contracts are lines that start with "//@" (or "// @", which is what gofmt
// makes of them inside doc comments).  A file is a sequence of blocks:
//
//	//@ func (*Plugin).processChunk
//	//@   ghost body seq
//	//@   requires ...
//	//@   ensures ...
//	//@   loop 1 invariant ...
//	//@   callee In(sid, name, offs, data, isNew, meta)
//	//@     requires ...
//	//@     set emitted := emitted + len(data) + 1
//
// A line whose first token is "+" continues the previous clause.

import (
	"fmt"
	"strconv"
	"strings"
	"unicode"
)

// ---------- expression AST ----------

type Expr interface{}

type (
	EIdent struct{ Name string }
	ENum   struct{ V string }
	EStr   struct{ S string }
	EUnary struct {
		Op string
		X  Expr
	}
	EBin struct {
		Op   string
		L, R Expr
	}
	EIndex struct{ X, I Expr }
	ESlice struct{ X, Lo, Hi Expr }
	ESel   struct {
		X Expr
		F string
	}
	ECall struct {
		Fn   string
		Args []Expr
	}
	EQuant struct {
		All   bool
		Vars  []string
		Sorts []string
		Body  Expr
	}
)

type tok struct {
	k string // id num str op eof
	s string
}

func lexExpr(src string) ([]tok, error) {
	var out []tok
	i := 0
	for i < len(src) {
		c := src[i]
		switch {
		case c == ' ' || c == '\t':
			i++
		case unicode.IsLetter(rune(c)) || c == '_' || c == '$':
			j := i
			for j < len(src) && (unicode.IsLetter(rune(src[j])) || unicode.IsDigit(rune(src[j])) || src[j] == '_' || src[j] == '$' || src[j] == '#') {
				j++
			}
			out = append(out, tok{"id", src[i:j]})
			i = j
		case c >= '0' && c <= '9':
			j := i
			for j < len(src) && (src[j] >= '0' && src[j] <= '9' || src[j] == 'x' || (src[j] >= 'a' && src[j] <= 'f') || (src[j] >= 'A' && src[j] <= 'F')) {
				j++
			}
			v, err := strconv.ParseUint(src[i:j], 0, 64)
			if err != nil {
				return nil, fmt.Errorf("bad number %q", src[i:j])
			}
			out = append(out, tok{"num", strconv.FormatUint(v, 10)})
			i = j
		case c == '\'':
			j := i + 1
			for j < len(src) && src[j] != '\'' {
				if src[j] == '\\' {
					j++
				}
				j++
			}
			if j >= len(src) {
				return nil, fmt.Errorf("unterminated char literal")
			}
			r, _, _, err := strconv.UnquoteChar(src[i+1:j], '\'')
			if err != nil {
				return nil, fmt.Errorf("bad char literal %s", src[i:j+1])
			}
			out = append(out, tok{"num", strconv.Itoa(int(r))})
			i = j + 1
		case c == '"':
			j := i + 1
			for j < len(src) && src[j] != '"' {
				if src[j] == '\\' {
					j++
				}
				j++
			}
			if j >= len(src) {
				return nil, fmt.Errorf("unterminated string literal")
			}
			s, err := strconv.Unquote(src[i : j+1])
			if err != nil {
				return nil, err
			}
			out = append(out, tok{"str", s})
			i = j + 1
		default:
			ops := []string{"<==>", "==>", "::", ":=", "==", "!=", "<=", ">=", "&&", "||", "<<", ">>", "..",
				"+", "-", "*", "/", "%", "<", ">", "!", "(", ")", "[", "]", ",", ".", ":", "&", "|", "^", "?"}
			ok := false
			for _, o := range ops {
				if strings.HasPrefix(src[i:], o) {
					out = append(out, tok{"op", o})
					i += len(o)
					ok = true
					break
				}
			}
			if !ok {
				return nil, fmt.Errorf("unexpected character %q in %q", c, src)
			}
		}
	}
	out = append(out, tok{"eof", ""})
	return out, nil
}

type eparser struct {
	t []tok
	p int
}

func (p *eparser) peek() tok { return p.t[p.p] }
func (p *eparser) next() tok { t := p.t[p.p]; p.p++; return t }
func (p *eparser) isOp(s string) bool {
	return p.t[p.p].k == "op" && p.t[p.p].s == s
}
func (p *eparser) expectOp(s string) {
	if !p.isOp(s) {
		panic(fmt.Errorf("expected %q, got %q", s, p.peek().s))
	}
	p.p++
}

func ParseExpr(src string) (e Expr, err error) {
	toks, err := lexExpr(src)
	if err != nil {
		return nil, err
	}
	p := &eparser{t: toks}
	defer func() {
		if r := recover(); r != nil {
			if er, ok := r.(error); ok {
				err = fmt.Errorf("%v in %q", er, src)
				return
			}
			panic(r)
		}
	}()
	e = p.parseIff()
	if p.peek().k != "eof" {
		return nil, fmt.Errorf("trailing tokens at %q in %q", p.peek().s, src)
	}
	return e, nil
}

func (p *eparser) parseIff() Expr {
	l := p.parseImp()
	for p.isOp("<==>") {
		p.next()
		r := p.parseImp()
		l = &EBin{"<==>", l, r}
	}
	return l
}

func (p *eparser) parseImp() Expr {
	l := p.parseOr()
	if p.isOp("==>") {
		p.next()
		r := p.parseImp()
		return &EBin{"==>", l, r}
	}
	return l
}

func (p *eparser) parseOr() Expr {
	l := p.parseAnd()
	for p.isOp("||") {
		p.next()
		l = &EBin{"||", l, p.parseAnd()}
	}
	return l
}

func (p *eparser) parseAnd() Expr {
	l := p.parseCmp()
	for p.isOp("&&") {
		p.next()
		l = &EBin{"&&", l, p.parseCmp()}
	}
	return l
}

func (p *eparser) parseCmp() Expr {
	first := p.parseAdd()
	operands := []Expr{first}
	var ops []string
	for {
		t := p.peek()
		if t.k == "op" && isCmp(t.s) {
			p.next()
			ops = append(ops, t.s)
			operands = append(operands, p.parseAdd())
			continue
		}
		break
	}
	if len(ops) == 0 {
		return first
	}
	// chained comparison a <= b < c  ==> (a<=b) && (b<c)
	var res Expr
	for i, o := range ops {
		c := &EBin{o, operands[i], operands[i+1]}
		if res == nil {
			res = c
		} else {
			res = &EBin{"&&", res, c}
		}
	}
	return res
}

func isCmp(s string) bool {
	return s == "<" || s == "<=" || s == ">" || s == ">=" || s == "==" || s == "!="
}

func (p *eparser) parseAdd() Expr {
	l := p.parseMul()
	for {
		t := p.peek()
		if t.k == "op" && (t.s == "+" || t.s == "-" || t.s == "|" || t.s == "^") {
			p.next()
			l = &EBin{t.s, l, p.parseMul()}
			continue
		}
		return l
	}
}

func (p *eparser) parseMul() Expr {
	l := p.parseUnary()
	for {
		t := p.peek()
		if t.k == "op" && (t.s == "*" || t.s == "/" || t.s == "%" || t.s == "<<" || t.s == ">>" || t.s == "&") {
			p.next()
			l = &EBin{t.s, l, p.parseUnary()}
			continue
		}
		return l
	}
}

func (p *eparser) parseUnary() Expr {
	t := p.peek()
	if t.k == "op" && (t.s == "!" || t.s == "-" || t.s == "*") {
		p.next()
		return &EUnary{t.s, p.parseUnary()}
	}
	return p.parsePostfix()
}

func (p *eparser) parsePostfix() Expr {
	x := p.parsePrimary()
	for {
		switch {
		case p.isOp("."):
			p.next()
			t := p.next()
			if t.k != "id" {
				panic(fmt.Errorf("expected field name after '.'"))
			}
			x = &ESel{x, t.s}
		case p.isOp("["):
			p.next()
			var lo, hi Expr
			if p.isOp(":") {
				p.next()
				if !p.isOp("]") {
					hi = p.parseIff()
				}
				p.expectOp("]")
				x = &ESlice{x, nil, hi}
				continue
			}
			lo = p.parseIff()
			if p.isOp(":") {
				p.next()
				if !p.isOp("]") {
					hi = p.parseIff()
				}
				p.expectOp("]")
				x = &ESlice{x, lo, hi}
				continue
			}
			p.expectOp("]")
			x = &EIndex{x, lo}
		default:
			return x
		}
	}
}

func (p *eparser) parsePrimary() Expr {
	t := p.next()
	switch t.k {
	case "num":
		return &ENum{t.s}
	case "str":
		return &EStr{t.s}
	case "op":
		if t.s == "(" {
			e := p.parseIff()
			p.expectOp(")")
			return e
		}
		panic(fmt.Errorf("unexpected %q", t.s))
	case "id":
		if (t.s == "forall" || t.s == "exists") && p.peek().k == "id" {
			// (a Go variable that happens to be called exists / forall is followed by an operator, not a name)
			q := &EQuant{All: t.s == "forall"}
			for {
				v := p.next()
				if v.k != "id" {
					panic(fmt.Errorf("expected bound variable"))
				}
				sort := "int"
				if p.peek().k == "id" {
					sort = p.next().s
				}
				q.Vars = append(q.Vars, v.s)
				q.Sorts = append(q.Sorts, sort)
				if p.isOp(",") {
					p.next()
					continue
				}
				break
			}
			p.expectOp("::")
			q.Body = p.parseIff()
			return q
		}
		if p.isOp("(") {
			p.next()
			c := &ECall{Fn: t.s}
			if !p.isOp(")") {
				for {
					c.Args = append(c.Args, p.parseIff())
					if p.isOp(",") {
						p.next()
						continue
					}
					break
				}
			}
			p.expectOp(")")
			return c
		}
		return &EIdent{t.s}
	}
	panic(fmt.Errorf("unexpected end of expression"))
}

func exprString(e Expr) string {
	switch x := e.(type) {
	case *EIdent:
		return x.Name
	case *ENum:
		return x.V
	case *EStr:
		return strconv.Quote(x.S)
	case *EUnary:
		return x.Op + exprString(x.X)
	case *EBin:
		return "(" + exprString(x.L) + " " + x.Op + " " + exprString(x.R) + ")"
	case *EIndex:
		return exprString(x.X) + "[" + exprString(x.I) + "]"
	case *ESlice:
		s := exprString(x.X) + "["
		if x.Lo != nil {
			s += exprString(x.Lo)
		}
		s += ":"
		if x.Hi != nil {
			s += exprString(x.Hi)
		}
		return s + "]"
	case *ESel:
		return exprString(x.X) + "." + x.F
	case *ECall:
		var a []string
		for _, y := range x.Args {
			a = append(a, exprString(y))
		}
		return x.Fn + "(" + strings.Join(a, ", ") + ")"
	case *EQuant:
		k := "exists"
		if x.All {
			k = "forall"
		}
		return k + " " + strings.Join(x.Vars, ", ") + " :: " + exprString(x.Body)
	}
	return "?"
}

// ---------- contract structures ----------

type Clause struct {
	Kind string // requires ensures invariant assume
	E    Expr
	Src  string
	ID   string // stable clause id: "<kind>#<n>" within its owner
	Line string // file:line of the contract text
}

type GhostDecl struct {
	Name string
	Type string // int bool seq
	Init Expr   // may be nil (logical variable: unconstrained at entry)
}

type SetClause struct {
	Name string
	E    Expr
	Src  string
}

type ModClause struct {
	Items []Expr // lvalue expressions; empty + Nothing => modifies nothing
	Src   string
}

type CalleeSpec struct {
	Name      string   // key to match call sites
	Params    []string // positional names for args (receiver not included)
	Recv      string   // optional name for receiver/callee value
	Requires  []*Clause
	Ensures   []*Clause
	Sets      []*SetClause
	Modifies  *ModClause // nil => default by tier
	Pure      bool       // no heap effect at all
	Private   bool       // assumption: the callee neither retains nor hands on its pointer arguments (objects stay unpublished)
	Havoc     bool       // havoc all heaps
	Results   []string   // names for results
	MutGhosts []string   // ghosts havocked by the call (then constrained by ensures)
	Preserves []string   // with havoc: type names whose heap components the call does not write
	Used      int
}

type LoopSpec struct {
	IterEnsures []*Clause // proved at every back edge (end of an iteration); not assumed at the head
	Invariants  []*Clause
	Decreases   Expr
}

type FuncSpec struct {
	Name       string // function name as written (RelString or full)
	Pkg        string // package path the file belongs to ("" for lib)
	ParamsOv   []string
	ResultsOv  []string
	Ghosts     []*GhostDecl
	Requires   []*Clause
	Ensures    []*Clause
	Modifies   *ModClause
	Loops      map[int]*LoopSpec
	Callees    []*CalleeSpec
	Asserts    map[string][]*Clause    // at "<text>"
	SetAts     map[string][]*SetClause // ghost assignment anchored before a statement
	Options    map[string]string       // mode, allow-exit, check ...
	Pure       bool
	Trusted    bool // lib contract (never verified against a body)
	File       string
	Lemmas     []*Clause
	AssumeSafe []string                   // source-line anchors whose automatic safety obligations are assumed (listed as assumptions)
	Preserves  []string                   // without a modifies clause: type names whose heap components this function does not write (unchecked at call sites of unverified callees; checked when the function is verified)
	Acquires   []Expr                     // locks held on return that were not held on entry (x.mu)
	Releases   []Expr                     // locks held on entry and released before return
	Binds      map[string]map[string]Expr // callee name -> callee ghost -> expression (evaluated at the call site)
	MutGhosts  []string                   // ghosts this function may change (declared with "ghostout")
}

type SpecFile struct {
	Funcs    []*FuncSpec
	Ghosts   []*GhostField // ghost fields of types
	Monitors []*MonitorSpec
}

// MonitorSpec: state guarded by one mutex field of a struct type.
type MonitorSpec struct {
	Type       string // struct type name (package-relative)
	Field      string // mutex field
	Self       string // name of the struct pointer in the invariant
	Protects   []string
	Conds      []string // sync.Cond fields bound to this mutex
	Invariants []*Clause
	Pkg        string
}

type GhostField struct {
	Type  string // struct type name (package-relative)
	Field string
	Sort  string // int bool
}

type specLine struct {
	text string
	pos  string
}

func parseSpecLines(lines []specLine, pkg string, file string, trusted bool) (*SpecFile, error) {
	sf := &SpecFile{}
	var cur *FuncSpec
	var curMon *MonitorSpec
	var curCallee *CalleeSpec
	var lastClause *Clause
	calleeIndent := 0
	counter := map[string]int{}
	mk := func(kind, owner, src, pos string) (*Clause, error) {
		e, err := ParseExpr(src)
		if err != nil {
			return nil, fmt.Errorf("%s: %v", pos, err)
		}
		counter[owner+kind]++
		c := &Clause{Kind: kind, E: e, Src: src, ID: fmt.Sprintf("%s#%d", kind, counter[owner+kind]), Line: pos}
		return c, nil
	}
	for _, ln := range lines {
		t := strings.TrimSpace(ln.text)
		if t == "" {
			continue
		}
		indent := len(ln.text) - len(strings.TrimLeft(ln.text, " \t"))
		if curCallee != nil && indent <= calleeIndent && !strings.HasPrefix(t, "+") {
			curCallee = nil // a clause indented no deeper than its "callee" line belongs to the function again
		}
		if i := strings.Index(t, " //"); i >= 0 {
			// trailing comment inside contract line (not inside a string literal: keep simple)
			if !strings.Contains(t[:i], "\"") {
				t = strings.TrimSpace(t[:i])
			}
		}
		word, rest := splitWord(t)
		if word == "+" {
			if lastClause == nil {
				return nil, fmt.Errorf("%s: continuation without clause", ln.pos)
			}
			lastClause.Src += " " + rest
			e, err := ParseExpr(lastClause.Src)
			if err != nil {
				return nil, fmt.Errorf("%s: %v", ln.pos, err)
			}
			lastClause.E = e
			continue
		}
		lastClause = nil
		switch word {
		case "func":
			name := rest
			cur = &FuncSpec{Name: name, Pkg: pkg, Loops: map[int]*LoopSpec{}, Asserts: map[string][]*Clause{}, Options: map[string]string{}, Trusted: trusted, File: file}
			// optional parameter-name override:  func bytes.IndexByte(b, c) (r)
			if i := strings.Index(name, "("); i > 0 && !strings.HasPrefix(name, "(") {
				cur.Name = strings.TrimSpace(name[:i])
				sig := name[i:]
				j := strings.Index(sig, ")")
				cur.ParamsOv = splitList(sig[1:j])
				if cur.ParamsOv == nil {
					cur.ParamsOv = []string{}
				}
				r := strings.TrimSpace(sig[j+1:])
				if strings.HasPrefix(r, "(") {
					cur.ResultsOv = splitList(strings.Trim(r, "()"))
				}
			} else if strings.HasPrefix(name, "(") {
				// method: (*T).m or (*T).m(a,b)
				j := strings.Index(name, ")")
				k := strings.Index(name[j:], "(")
				if k > 0 {
					cur.Name = strings.TrimSpace(name[:j+k])
					sig := name[j+k:]
					e := strings.Index(sig, ")")
					cur.ParamsOv = splitList(sig[1:e])
					if cur.ParamsOv == nil {
						cur.ParamsOv = []string{}
					}
					r := strings.TrimSpace(sig[e+1:])
					if strings.HasPrefix(r, "(") {
						cur.ResultsOv = splitList(strings.Trim(r, "()"))
					}
				}
			}
			curCallee = nil
			curMon = nil
			sf.Funcs = append(sf.Funcs, cur)
			continue
		case "monitor":
			// monitor Type.field
			i := strings.LastIndex(rest, ".")
			if i < 0 {
				return nil, fmt.Errorf("%s: monitor Type.field", ln.pos)
			}
			curMon = &MonitorSpec{Type: strings.TrimSpace(rest[:i]), Field: strings.TrimSpace(rest[i+1:]), Self: "self", Pkg: pkg}
			sf.Monitors = append(sf.Monitors, curMon)
			cur = nil
			curCallee = nil
			continue
		case "ghostfield":
			// ghostfield Job.ls int
			parts := strings.Fields(rest)
			if len(parts) != 2 || !strings.Contains(parts[0], ".") {
				return nil, fmt.Errorf("%s: ghostfield T.f sort", ln.pos)
			}
			i := strings.LastIndex(parts[0], ".")
			sf.Ghosts = append(sf.Ghosts, &GhostField{Type: parts[0][:i], Field: parts[0][i+1:], Sort: parts[1]})
			continue
		}
		if cur == nil && curMon != nil {
			switch word {
			case "self":
				curMon.Self = rest
			case "protects":
				curMon.Protects = append(curMon.Protects, splitList(rest)...)
			case "cond":
				curMon.Conds = append(curMon.Conds, splitList(rest)...)
			case "invariant":
				c, err := mk("monitor-invariant", "monitor "+curMon.Type+"."+curMon.Field, rest, ln.pos)
				if err != nil {
					return nil, err
				}
				lastClause = c
				curMon.Invariants = append(curMon.Invariants, c)
			default:
				return nil, fmt.Errorf("%s: unknown monitor clause %q", ln.pos, word)
			}
			continue
		}
		if cur == nil {
			return nil, fmt.Errorf("%s: clause %q outside func block", ln.pos, word)
		}
		owner := cur.Name
		if curCallee != nil {
			owner += "/" + curCallee.Name
		}
		switch word {
		case "ghost":
			// ghost name type [= expr]
			parts := strings.SplitN(rest, "=", 2)
			f := strings.Fields(parts[0])
			if len(f) != 2 {
				return nil, fmt.Errorf("%s: ghost name type [= init]", ln.pos)
			}
			g := &GhostDecl{Name: f[0], Type: f[1]}
			if len(parts) == 2 {
				e, err := ParseExpr(strings.TrimSpace(parts[1]))
				if err != nil {
					return nil, fmt.Errorf("%s: %v", ln.pos, err)
				}
				g.Init = e
			}
			cur.Ghosts = append(cur.Ghosts, g)
		case "requires", "ensures":
			c, err := mk(word, owner, rest, ln.pos)
			if err != nil {
				return nil, err
			}
			lastClause = c
			if curCallee != nil {
				if word == "requires" {
					curCallee.Requires = append(curCallee.Requires, c)
				} else {
					curCallee.Ensures = append(curCallee.Ensures, c)
				}
			} else {
				if word == "requires" {
					cur.Requires = append(cur.Requires, c)
				} else {
					cur.Ensures = append(cur.Ensures, c)
				}
			}
		case "lemma":
			c, err := mk(word, owner, rest, ln.pos)
			if err != nil {
				return nil, err
			}
			lastClause = c
			cur.Lemmas = append(cur.Lemmas, c)
		case "set":
			parts := strings.SplitN(rest, ":=", 2)
			if len(parts) != 2 {
				return nil, fmt.Errorf("%s: set name := expr", ln.pos)
			}
			e, err := ParseExpr(strings.TrimSpace(parts[1]))
			if err != nil {
				return nil, fmt.Errorf("%s: %v", ln.pos, err)
			}
			if curCallee == nil {
				return nil, fmt.Errorf("%s: set outside callee", ln.pos)
			}
			curCallee.Sets = append(curCallee.Sets, &SetClause{Name: strings.TrimSpace(parts[0]), E: e, Src: rest})
		case "modifies":
			m := &ModClause{Src: rest}
			if strings.TrimSpace(rest) != "nothing" {
				for _, it := range splitTop(rest) {
					e, err := ParseExpr(it)
					if err != nil {
						return nil, fmt.Errorf("%s: %v", ln.pos, err)
					}
					m.Items = append(m.Items, e)
				}
			}
			if curCallee != nil {
				curCallee.Modifies = m
			} else {
				cur.Modifies = m
			}
		case "acquires", "releases":
			for _, it := range splitTop(rest) {
				e, err := ParseExpr(it)
				if err != nil {
					return nil, fmt.Errorf("%s: %v", ln.pos, err)
				}
				if word == "acquires" {
					cur.Acquires = append(cur.Acquires, e)
				} else {
					cur.Releases = append(cur.Releases, e)
				}
			}
		case "pure":
			if curCallee != nil {
				curCallee.Pure = true
			} else {
				cur.Pure = true
			}
		case "private":
			if curCallee != nil {
				curCallee.Private = true
			}
		case "havoc":
			if curCallee != nil {
				curCallee.Havoc = true
			}
		case "preserves":
			if curCallee != nil {
				curCallee.Havoc = true
				curCallee.Preserves = append(curCallee.Preserves, splitList(rest)...)
			} else {
				cur.Preserves = append(cur.Preserves, splitList(rest)...)
			}
		case "loop":
			// loop N invariant E | loop N decreases E
			f := strings.SplitN(rest, " ", 3)
			if len(f) < 3 {
				return nil, fmt.Errorf("%s: loop N invariant E", ln.pos)
			}
			n, err := strconv.Atoi(f[0])
			if err != nil {
				return nil, fmt.Errorf("%s: loop ordinal: %v", ln.pos, err)
			}
			ls := cur.Loops[n]
			if ls == nil {
				ls = &LoopSpec{}
				cur.Loops[n] = ls
			}
			switch f[1] {
			case "invariant":
				c, err := mk("invariant", fmt.Sprintf("%s/loop%d", cur.Name, n), f[2], ln.pos)
				if err != nil {
					return nil, err
				}
				c.ID = fmt.Sprintf("loop%d-%s", n, c.ID)
				lastClause = c
				ls.Invariants = append(ls.Invariants, c)
			case "iter-ensures":
				c, err := mk("iter-ensures", fmt.Sprintf("%s/loop%d", cur.Name, n), f[2], ln.pos)
				if err != nil {
					return nil, err
				}
				c.ID = fmt.Sprintf("loop%d-%s", n, c.ID)
				lastClause = c
				ls.IterEnsures = append(ls.IterEnsures, c)
			case "decreases":
				e, err := ParseExpr(f[2])
				if err != nil {
					return nil, fmt.Errorf("%s: %v", ln.pos, err)
				}
				ls.Decreases = e
			default:
				return nil, fmt.Errorf("%s: unknown loop clause %q", ln.pos, f[1])
			}
		case "callee":
			cs := &CalleeSpec{}
			name := rest
			if i := strings.Index(name, "("); i >= 0 {
				j := strings.Index(name, ")")
				cs.Params = splitList(name[i+1 : j])
				r := strings.TrimSpace(name[j+1:])
				if strings.HasPrefix(r, "(") {
					cs.Results = splitList(strings.Trim(r, "()"))
				}
				name = strings.TrimSpace(name[:i])
			}
			cs.Name = name
			cur.Callees = append(cur.Callees, cs)
			curCallee = cs
			calleeIndent = indent
		case "endcallee":
			curCallee = nil
		case "bind":
			// bind <callee> <ghost> := expr
			callee, r2 := splitWord(rest)
			parts := strings.SplitN(r2, ":=", 2)
			if len(parts) != 2 {
				return nil, fmt.Errorf("%s: bind callee ghost := expr", ln.pos)
			}
			e, err := ParseExpr(strings.TrimSpace(parts[1]))
			if err != nil {
				return nil, fmt.Errorf("%s: %v", ln.pos, err)
			}
			if cur.Binds == nil {
				cur.Binds = map[string]map[string]Expr{}
			}
			if cur.Binds[callee] == nil {
				cur.Binds[callee] = map[string]Expr{}
			}
			cur.Binds[callee][strings.TrimSpace(parts[0])] = e
		case "ghostout":
			if curCallee != nil {
				curCallee.MutGhosts = append(curCallee.MutGhosts, splitList(rest)...)
			} else {
				cur.MutGhosts = append(cur.MutGhosts, splitList(rest)...)
			}
		case "assume-safe":
			// assume-safe "<anchor text>" reason...
			r := strings.TrimSpace(rest)
			if strings.HasPrefix(r, "\"") {
				j := strings.Index(r[1:], "\"")
				cur.AssumeSafe = append(cur.AssumeSafe, r[1:1+j])
			}
		case "option":
			k, v := splitWord(rest)
			cur.Options[k] = v
		case "assume":
			// assume at "<anchor text>" E     -- an explicit, listed assumption (never added to make a proof pass silently)
			if !strings.HasPrefix(rest, "at ") {
				return nil, fmt.Errorf("%s: assume at \"text\" E", ln.pos)
			}
			r := strings.TrimSpace(rest[3:])
			j := strings.Index(r[1:], "\"")
			anchor := r[1 : 1+j]
			c, err := mk("assume", owner, strings.TrimSpace(r[j+2:]), ln.pos)
			if err != nil {
				return nil, err
			}
			lastClause = c
			c.Kind = "assume-at"
			cur.Asserts[anchor] = append(cur.Asserts[anchor], c)
		case "setat":
			// setat "<anchor text>" ghost := expr     (executed just before the anchored statement)
			r := strings.TrimSpace(rest)
			if !strings.HasPrefix(r, "\"") {
				return nil, fmt.Errorf("%s: setat \"text\" name := expr", ln.pos)
			}
			j := strings.Index(r[1:], "\"")
			anchor := r[1 : 1+j]
			parts := strings.SplitN(strings.TrimSpace(r[j+2:]), ":=", 2)
			if len(parts) != 2 {
				return nil, fmt.Errorf("%s: setat \"text\" name := expr", ln.pos)
			}
			e, err := ParseExpr(strings.TrimSpace(parts[1]))
			if err != nil {
				return nil, fmt.Errorf("%s: %v", ln.pos, err)
			}
			if cur.SetAts == nil {
				cur.SetAts = map[string][]*SetClause{}
			}
			cur.SetAts[anchor] = append(cur.SetAts[anchor], &SetClause{Name: strings.TrimSpace(parts[0]), E: e, Src: rest})
		case "cover":
			// cover at "<anchor text>" E   -- some path reaches the anchored statement with E true (expected satisfiable)
			if !strings.HasPrefix(rest, "at ") {
				return nil, fmt.Errorf("%s: cover at \"text\" E", ln.pos)
			}
			r := strings.TrimSpace(rest[3:])
			if !strings.HasPrefix(r, "\"") {
				return nil, fmt.Errorf("%s: cover at \"text\" E", ln.pos)
			}
			j := strings.Index(r[1:], "\"")
			anchor := r[1 : 1+j]
			c, err := mk("cover", owner, strings.TrimSpace(r[j+2:]), ln.pos)
			if err != nil {
				return nil, err
			}
			lastClause = c
			c.Kind = "cover-at"
			cur.Asserts[anchor] = append(cur.Asserts[anchor], c)
		case "assert":
			// assert at|after "<anchor text>" E   -- anchored on source text of a statement
			when := "at"
			switch {
			case strings.HasPrefix(rest, "at "):
				rest = rest[3:]
			case strings.HasPrefix(rest, "after "):
				rest = rest[6:]
				when = "after"
			default:
				return nil, fmt.Errorf("%s: assert at|after \"text\" E", ln.pos)
			}
			r := strings.TrimSpace(rest)
			if !strings.HasPrefix(r, "\"") {
				return nil, fmt.Errorf("%s: assert at \"text\" E", ln.pos)
			}
			j := strings.Index(r[1:], "\"")
			anchor := r[1 : 1+j]
			c, err := mk("assert", owner, strings.TrimSpace(r[j+2:]), ln.pos)
			if err != nil {
				return nil, err
			}
			lastClause = c
			c.Kind = "assert-" + when
			cur.Asserts[anchor] = append(cur.Asserts[anchor], c)
		default:
			return nil, fmt.Errorf("%s: unknown clause kind %q", ln.pos, word)
		}
	}
	return sf, nil
}

func splitWord(s string) (string, string) {
	s = strings.TrimSpace(s)
	i := strings.IndexAny(s, " \t")
	if i < 0 {
		return s, ""
	}
	return s[:i], strings.TrimSpace(s[i+1:])
}

func splitList(s string) []string {
	var out []string
	for _, p := range strings.Split(s, ",") {
		p = strings.TrimSpace(p)
		if p != "" {
			out = append(out, p)
		}
	}
	return out
}

// splitTop splits on commas not nested in () or [].
func splitTop(s string) []string {
	var out []string
	depth := 0
	start := 0
	for i, c := range s {
		switch c {
		case '(', '[':
			depth++
		case ')', ']':
			depth--
		case ',':
			if depth == 0 {
				out = append(out, strings.TrimSpace(s[start:i]))
				start = i + 1
			}
		}
	}
	if strings.TrimSpace(s[start:]) != "" {
		out = append(out, strings.TrimSpace(s[start:]))
	}
	return out
}
