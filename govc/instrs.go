package main

import (
	"os"
	"fmt"
	"go/constant"
	"go/token"
	"go/types"
	"strings"

	"golang.org/x/tools/go/ssa"
)

func (g *Gen) value(st *State, v ssa.Value) Val {
	switch x := v.(type) {
	case *ssa.Const:
		return g.constVal(x)
	case *ssa.Global:
		return PtrV{RootKey: "G:" + x.Pkg.Pkg.Path() + "." + x.Name(), Ref: "1", Idx: "0", Elem: x.Type().(*types.Pointer).Elem()}
	case *ssa.Function:
		return FuncV{Fn: x}
	case *ssa.Builtin:
		return FuncV{}
	}
	if st != nil && st.regs != nil {
		if r, ok := st.regs[v]; ok {
			return r
		}
	}
	if r, ok := g.regs[v]; ok {
		return r
	}
	g.unsupported(fmt.Sprintf("use of undefined value %s (%T)", v.Name(), v))
	return nil
}

func (g *Gen) constVal(c *ssa.Const) Val {
	t := c.Type()
	if c.Value == nil {
		return g.zeroVal(t)
	}
	switch u := t.Underlying().(type) {
	case *types.Basic:
		switch {
		case u.Info()&types.IsBoolean != 0:
			if constant.BoolVal(c.Value) {
				return BoolV{"true"}
			}
			return BoolV{"false"}
		case u.Info()&types.IsInteger != 0:
			if g.bv {
				if i, ok := constant.Int64Val(constant.ToInt(c.Value)); ok {
					return IntV{g.pnum(i)}
				}
				u64, _ := constant.Uint64Val(constant.ToInt(c.Value))
				return IntV{fmt.Sprintf("(_ bv%d 64)", u64)}
			}
			s := constant.ToInt(c.Value).ExactString()
			if strings.HasPrefix(s, "-") {
				return IntV{"(- " + s[1:] + ")"}
			}
			return IntV{s}
		case u.Info()&types.IsFloat != 0:
			f, _ := constant.Float64Val(c.Value)
			s := fmt.Sprintf("%f", f)
			if f < 0 {
				s = fmt.Sprintf("(- %f)", -f)
			}
			return RealV{s}
		case u.Info()&types.IsString != 0:
			return g.strLit(constant.StringVal(c.Value))
		}
	}
	g.unsupported("constant of type " + t.String())
	return nil
}

func (g *Gen) strLit(s string) Val {
	if len(s) == 0 {
		return StrV{"((as const (Array Int Int)) 0)", "0", "0"}
	}
	name := symq("S:" + fmt.Sprintf("%x", s))
	if len(s) > 40 {
		name = symq("S:" + fmt.Sprintf("%x", s[:40]) + fmt.Sprintf("_%d_%d", len(s), hashStr(s)))
	}
	if !g.declared[name] {
		g.declared[name] = true
		g.emit("(declare-const " + name + " (Array Int Int))")
		if len(s) <= 64 {
			for i := 0; i < len(s); i++ {
				g.emit(fmt.Sprintf("(assert (= (select %s %d) %d))", name, i, s[i]))
			}
		}
	}
	return StrV{name, "0", fmt.Sprint(len(s))}
}

func hashStr(s string) uint32 {
	var h uint32 = 2166136261
	for i := 0; i < len(s); i++ {
		h ^= uint32(s[i])
		h *= 16777619
	}
	return h
}

func (g *Gen) execBlock(b *ssa.BasicBlock, st *State) {
	g.regs = st.regs
	lastLine := ""
	for _, in := range b.Instrs {
		if p := in.Pos(); p.IsValid() {
			if _, isDbg := in.(*ssa.DebugRef); !isDbg {
				line := g.W.sourceLine(p)
				if line != lastLine {
					g.anchored(st, lastLine, "assert-after")
					g.curPos = p
					g.anchored(st, line, "assert-at")
					lastLine = line
				}
				g.curPos = p
			}
		}
		switch in.(type) {
		case *ssa.Return, *ssa.Panic, *ssa.If, *ssa.Jump:
			g.anchored(st, lastLine, "assert-after")
			lastLine = ""
		}
		g.execInstr(st, in)
		switch in.(type) {
		case *ssa.Return, *ssa.Panic:
			return
		}
	}
	// terminator
	last := b.Instrs[len(b.Instrs)-1]
	switch t := last.(type) {
	case *ssa.If:
		c := g.value(st, t.Cond).(BoolV).T
		s1 := st.clone()
		g.addEdge(b, b.Succs[0], s1, g.defBool("e", and(st.pc, c)))
		s2 := st.clone()
		g.addEdge(b, b.Succs[1], s2, g.defBool("e", and(st.pc, not(c))))
	case *ssa.Jump:
		g.addEdge(b, b.Succs[0], st, st.pc)
	}
}

func (g *Gen) execInstr(st *State, in ssa.Instruction) {
	switch x := in.(type) {
	case *ssa.DebugRef:
	case *ssa.Alloc:
		g.execAlloc(st, x)
	case *ssa.Store:
		addr := g.value(st, x.Addr).(PtrV)
		g.store(st, addr, g.value(st, x.Val))
	case *ssa.UnOp:
		g.regs[x] = g.unop(st, x)
	case *ssa.BinOp:
		g.regs[x] = g.binop(st, x.Op, g.value(st, x.X), g.value(st, x.Y), x.X.Type(), x.Type())
	case *ssa.FieldAddr:
		p := g.value(st, x.X).(PtrV)
		stt := x.X.Type().Underlying().(*types.Pointer).Elem().Underlying().(*types.Struct)
		f := stt.Field(x.Field)
		g.regs[x] = g.fieldAddr(st, p, x.Field, f.Name(), f.Type())
	case *ssa.Field:
		sv := g.value(st, x.X).(StructV)
		g.regs[x] = sv.F[x.Field]
	case *ssa.IndexAddr:
		g.regs[x] = g.indexAddr(st, x)
	case *ssa.Index:
		g.regs[x] = g.indexVal(st, x)
	case *ssa.Slice:
		g.regs[x] = g.sliceOp(st, x)
	case *ssa.Phi:
		// handled at block entry
	case *ssa.Call:
		g.regs[x] = g.call(st, x, x.Common(), x.Type())
	case *ssa.Defer:
		// Go evaluates the function value and the arguments of a deferred call at the defer statement
		vals := map[ssa.Value]Val{}
		c := x.Common()
		// the operands' own defining chain too (the monitor rule looks through *(&base.mu) to base)
		var capture func(v ssa.Value, depth int)
		capture = func(v ssa.Value, depth int) {
			if r, ok := st.regs[v]; ok {
				vals[v] = r
			}
			if in, ok := v.(ssa.Instruction); ok && depth > 0 {
				for _, op := range in.Operands(nil) {
					if *op != nil {
						capture(*op, depth-1)
					}
				}
			}
		}
		for _, a := range c.Args {
			vals[a] = g.value(st, a)
			capture(a, 3)
		}
		switch c.Value.(type) {
		case *ssa.Function, *ssa.Builtin:
		default:
			vals[c.Value] = g.value(st, c.Value)
		}
		st.defers = append(st.defers, deferEntry{x, "true", vals})
	case *ssa.RunDefers:
		ds := st.defers
		st.defers = nil
		for i := len(ds) - 1; i >= 0; i-- {
			for k, v := range ds[i].vals {
				st.regs[k] = v
			}
			if ds[i].guard == "true" {
				g.call(st, ds[i].d, ds[i].d.Common(), nil)
				continue
			}
			// conditionally registered defer: run it on the paths that registered it
			s1 := st.clone()
			s1.pc = g.defBool("pc", and(st.pc, ds[i].guard))
			g.call(s1, ds[i].d, ds[i].d.Common(), nil)
			s2 := st.clone()
			s2.pc = g.defBool("pc", and(st.pc, not(ds[i].guard)))
			merged := g.join(nil, []edge{{nil, s1, s1.pc}, {nil, s2, s2.pc}})
			*st = *merged
			g.regs = st.regs
			st.defers = nil
		}
	case *ssa.Go:
		// the goroutine's effects are not modelled; a call-site clause `callee go:<name>(...)` can put an oracle (requires)
		// and ghost updates (set) on the start itself: "the heartbeat is started exactly once"
		handled := false
		if g.spec != nil {
			c := x.Common()
			keys, _, _, _ := g.calleeKeys(c)
			var args []Val
			for _, a := range c.Args {
				args = append(args, g.value(st, a))
			}
			for _, cs := range g.spec.Callees {
				for _, k := range keys {
					if cs.Name == "go:"+k && !handled {
						handled = true
						g.calleeUse[cs]++
						if len(cs.Ensures) > 0 {
							g.unsupported("callee " + cs.Name + ": ensures on a go statement is not supported (requires / set only)")
						}
						binds := map[string]Val{}
						explicit := args
						if !c.IsInvoke() && c.Signature().Recv() != nil && len(args) > 0 {
							binds["recv"] = args[0]
							explicit = args[1:]
						}
						for i, n := range cs.Params {
							if i < len(explicit) && n != "_" {
								binds[n] = explicit[i]
							}
						}
						g.applyContract(st, contractApp{what: "callee " + cs.Name, binds: binds, requires: cs.Requires, sets: cs.Sets,
							pure: true, rt: types.NewTuple(), clausePrefix: "callee " + cs.Name + " ", ownNames: true, mutGhosts: cs.MutGhosts})
					}
				}
			}
			for _, a := range args {
				g.publish(st, a)
			}
		}
		if !handled {
			g.note("go", "goroutine start not modelled: "+x.Common().String())
		}
	case *ssa.Convert:
		g.regs[x] = g.convert(st, g.value(st, x.X), x.X.Type(), x.Type())
	case *ssa.ChangeType:
		v := g.value(st, x.X)
		g.regs[x] = g.retype(v, x.Type())
	case *ssa.ChangeInterface:
		g.regs[x] = g.value(st, x.X)
	case *ssa.MakeInterface:
		g.publish(st, g.value(st, x.X))
		g.regs[x] = g.makeIface(st, g.value(st, x.X), x.X.Type())
	case *ssa.TypeAssert:
		g.regs[x] = g.typeAssert(st, x)
	case *ssa.Extract:
		tv := g.value(st, x.Tuple).(TupleV)
		g.regs[x] = tv.E[x.Index]
	case *ssa.MakeSlice:
		g.regs[x] = g.makeSlice(st, x)
	case *ssa.MakeClosure:
		fv := FuncV{Fn: x.Fn.(*ssa.Function)}
		for _, b := range x.Bindings {
			fv.Binds = append(fv.Binds, g.value(st, b))
			g.publish(st, g.value(st, b))
		}
		g.regs[x] = fv
	case *ssa.MakeMap:
		r := st.ac
		g.bumpAlloc(st)
		g.regs[x] = RefV{r, x.Type()}
		g.note("map", "map contents not modelled")
	case *ssa.MakeChan:
		r := st.ac
		g.bumpAlloc(st)
		g.regs[x] = RefV{r, x.Type()}
	case *ssa.MapUpdate:
		g.publish(st, g.value(st, x.Key))
		g.publish(st, g.value(st, x.Value))
		g.note("map", "map update not modelled")
		g.bumpMaps(st)
		// oracle clause on the update:  callee mapupdate:<name>(k, v)
		if g.spec != nil {
			name := "mapupdate:" + g.describeValue(x.Map)
			for _, cs := range g.spec.Callees {
				if cs.Name != name {
					continue
				}
				g.calleeUse[cs]++
				binds := map[string]Val{}
				if len(cs.Params) > 0 {
					binds[cs.Params[0]] = g.value(st, x.Key)
				}
				if len(cs.Params) > 1 {
					binds[cs.Params[1]] = g.value(st, x.Value)
				}
				ctx := &specCtx{g: g, st: st, old: g.entry, binds: binds}
				for _, c := range cs.Requires {
					g.oblige(st, "requires", "callee "+cs.Name+" "+c.ID, "map update "+name+": "+c.Src, g.evalGoal(ctx, c.E))
				}
				// ghost updates (counting the updates, remembering the last key ...)
				if len(cs.Sets) > 0 {
					g.applyContract(st, contractApp{what: "callee " + cs.Name, binds: binds, sets: cs.Sets, pure: true, rt: types.NewTuple(),
						clausePrefix: "callee " + cs.Name + " ", ownNames: true, mutGhosts: cs.MutGhosts})
				}
			}
		}
	case *ssa.Lookup:
		if _, isStr := x.X.Type().Underlying().(*types.Basic); isStr {
			s := g.value(st, x.X).(StrV)
			i := g.value(st, x.Index).(IntV).T
			g.oblige(st, "index", "", "string index in range", and("(<= 0 "+i+")", "(< "+i+" "+s.Len+")"))
			g.regs[x] = g.strAt(st, s, i)
			break
		}
		g.note("map", "map lookup result is unconstrained")
		v, inv := g.freshVal(x.Type(), "lookup")
		g.assume(st, inv)
		g.assume(st, g.allocatedInv(st, v, x.Type()))
		g.regs[x] = v
		// data invariant of the map's values stated by the contract:  callee maplookup:<name>(k) (v, ok)  ensures ...
		if g.spec != nil {
			name := "maplookup:" + g.describeValue(x.X)
			for _, cs := range g.spec.Callees {
				if cs.Name != name {
					continue
				}
				g.calleeUse[cs]++
				binds := map[string]Val{}
				if len(cs.Params) > 0 {
					binds[cs.Params[0]] = g.value(st, x.Index)
				}
				var results []Val
				if tv, ok := v.(TupleV); ok {
					results = tv.E
				} else {
					// the one-result form `m[k]` does not say whether the key is present: the clause's second
					// result name (if any) stands for an unknown boolean
					results = []Val{v, BoolV{g.fresh("mapok", "Bool")}}
				}
				ctx := &specCtx{g: g, st: st, old: st, binds: binds, results: results, resultNames: cs.Results, oldIsPre: true}
				for _, c := range cs.Ensures {
					g.assume(st, g.evalAssume(ctx, c.E))
					if !g.discovery {
						g.trustedUsed["map data invariant assumed at lookup "+name+": "+c.Src] = true
					}
				}
				// ghost updates: remember what this lookup returned
				if len(cs.Sets) > 0 {
					newVals := map[string]Val{}
					for _, sc := range cs.Sets {
						newVals[sc.Name] = g.evalSpec(ctx, sc.E)
					}
					for n, nv := range newVals {
						if _, ok := st.ghosts[n]; !ok {
							g.unsupported("set of undeclared ghost " + n)
						}
						st.ghosts[n] = nv
						g.noteGhostWrite(n)
					}
				}
			}
		}
	case *ssa.Range:
		g.regs[x] = RefV{"0", x.Type()}
		g.note("range", "range over map/string: iteration order and contents unconstrained")
	case *ssa.Next:
		v, inv := g.freshVal(x.Type(), "next")
		g.assume(st, inv)
		g.assume(st, g.allocatedInv(st, v, x.Type()))
		g.regs[x] = v
	case *ssa.Select:
		v, inv := g.freshVal(x.Type(), "select")
		g.assume(st, inv)
		if tv, ok := v.(TupleV); ok && len(tv.E) > 0 {
			if iv, ok := tv.E[0].(IntV); ok && !g.bv {
				lo := "0"
				if !x.Blocking {
					lo = "(- 1)"
				}
				g.assume(st, and("(<= "+lo+" "+iv.T+")", fmt.Sprintf("(< %s %d)", iv.T, len(x.States))))
			}
		}
		g.regs[x] = v
		g.note("chan", "select not modelled: outcome unconstrained")
	case *ssa.Send:
		g.publish(st, g.value(st, x.X))
		g.note("chan", "channel send not modelled")
		if g.spec != nil {
			name := "chansend:" + g.describeValue(x.Chan)
			for _, cs := range g.spec.Callees {
				if cs.Name != name {
					continue
				}
				g.calleeUse[cs]++
				binds := map[string]Val{}
				if len(cs.Params) > 0 {
					binds[cs.Params[0]] = g.value(st, x.X)
				}
				ctx := &specCtx{g: g, st: st, old: g.entry, binds: binds}
				for _, c := range cs.Requires {
					g.oblige(st, "requires", "callee "+cs.Name+" "+c.ID, "channel send "+name+": "+c.Src, g.evalGoal(ctx, c.E))
				}
				if len(cs.Sets) > 0 {
					nv := map[string]Val{}
					for _, sc := range cs.Sets {
						nv[sc.Name] = g.evalSpec(ctx, sc.E)
					}
					for n, v := range nv {
						st.ghosts[n] = v
						g.noteGhostWrite(n)
					}
				}
			}
		}
	case *ssa.Return:
		g.execReturn(st, x)
	case *ssa.Panic:
		if g.spec == nil || g.spec.Options["allow-panic"] == "" {
			g.oblige(st, "panic", "", "explicit panic unreachable", "false")
		}
		st.pc = "false"
	case *ssa.If, *ssa.Jump:
	case *ssa.SliceToArrayPointer, *ssa.MultiConvert:
		g.unsupported(fmt.Sprintf("%T", in))
	default:
		g.unsupported(fmt.Sprintf("instruction %T", in))
	}
}

func (g *Gen) bumpAlloc(st *State) {
	n := g.fresh("ac", "Int")
	g.emit("(assert (= " + n + " (+ " + st.ac + " 1)))")
	st.ac = n
	g.noteAlloc()
}

func (g *Gen) execAlloc(st *State, a *ssa.Alloc) {
	t := a.Type().(*types.Pointer).Elem()
	if !g.escaping[a] {
		st.cells[a] = g.zeroVal(t)
		g.regs[a] = PtrV{Cell: a, Elem: t}
		return
	}
	// heap block
	r := st.ac
	g.bumpAlloc(st)
	if arr, ok := t.Underlying().(*types.Array); ok {
		// block of N elements
		et := arr.Elem()
		for _, l := range g.leaves(et) {
			key := heapKey(typeKey(et), nil, l.suffix)
			sort := nestSort(2, l.sort)
			h := g.heapTerm(st, key, sort)
			g.setHeapNoFrame(st, key, sort, "(store "+h+" "+r+" "+zeroOfSort(g, "(Array Int "+l.sort+")")+")")
		}
		g.regs[a] = PtrV{RootKey: typeKey(et), Ref: r, Idx: "0", Elem: t}
		return
	}
	p := PtrV{RootKey: typeKey(t), Ref: r, Idx: "0", Elem: t}
	if isScalarType(t) && cellOnlyAlloc(a) {
		// a captured scalar variable that is only read / written (here and in its closures): its cell is not an element
		// of any slice, so it gets a heap component of its own (same rule as for the closure's free variable)
		p.RootKey = "cell:" + p.RootKey
	}
	if _, ok := t.Underlying().(*types.Struct); ok && g.unroll == 0 {
		st.unpub[r] = true
	}
	for _, l := range g.leaves(t) {
		key := heapKey(p.RootKey, nil, l.suffix)
		sort := nestSort(2, l.sort)
		h := g.heapTerm(st, key, sort)
		g.setHeapNoFrame(st, key, sort, "(store "+h+" "+r+" "+zeroOfSort(g, "(Array Int "+l.sort+")")+")")
	}
	g.regs[a] = p
}

func (g *Gen) setHeapNoFrame(st *State, key, sort, term string) {
	g.setHeap(st, key, sort, term)
}

func (g *Gen) load(st *State, p PtrV) Val {
	if p.Cell != nil {
		v, ok := st.cells[p.Cell]
		if !ok {
			g.unsupported("load from a local that is not allocated on this path: " + p.Cell.Comment)
		}
		return g.cellGet(v, p.CPath)
	}
	if _, isArr := p.Elem.Underlying().(*types.Array); isArr && len(p.Steps) == 0 && !strings.HasPrefix(p.RootKey, "G:") && p.RootKey != typeKey(p.Elem) {
		g.unsupported("load of whole array through pointer")
	}
	g.checkProtectedAccess(st, p)
	v := g.loadHeap(st, p)
	g.assume(st, g.typeInv(v, p.Elem))
	g.assume(st, g.allocatedInv(st, v, p.Elem))
	return v
}

func (g *Gen) store(st *State, p PtrV, v Val) {
	if p.Cell != nil {
		cur, ok := st.cells[p.Cell]
		if !ok {
			g.unsupported("store to a local that is not allocated on this path")
		}
		st.cells[p.Cell] = g.cellSet(cur, p.CPath, v)
		return
	}
	g.checkProtectedAccess(st, p)
	g.publish(st, v)
	g.storeHeap(st, p, v)
}

func (g *Gen) unop(st *State, x *ssa.UnOp) Val {
	v := g.value(st, x.X)
	switch x.Op {
	case token.MUL:
		p, ok := v.(PtrV)
		if !ok {
			g.unsupported("load through non-pointer")
		}
		g.nilCheck(st, p)
		return g.load(st, p)
	case token.NOT:
		return BoolV{not(v.(BoolV).T)}
	case token.SUB:
		switch y := v.(type) {
		case IntV:
			if g.bv {
				return IntV{"(bvneg " + y.T + ")"}
			}
			return IntV{g.wrap("(- "+y.T+")", x.Type())}
		case RealV:
			return RealV{"(- " + y.T + ")"}
		}
	case token.XOR:
		y := v.(IntV)
		if g.bv {
			return IntV{"(bvnot " + y.T + ")"}
		}
		bits, uns, _ := intBits(x.Type())
		if uns {
			return IntV{fmt.Sprintf("(- %s %s)", pow2m1(bits), y.T)}
		}
		return IntV{"(- (- " + y.T + ") 1)"}
	case token.ARROW:
		g.note("chan", "channel receive: value unconstrained")
		r, inv := g.freshVal(x.Type(), "recv")
		g.assume(st, inv)
		g.assume(st, g.allocatedInv(st, r, x.Type()))
		// channel invariant stated by the contract:  callee chanrecv:<name>() (v)  ensures ...
		if g.spec != nil {
			name := "chanrecv:" + g.describeValue(x.X)
			for _, cs := range g.spec.Callees {
				if cs.Name != name {
					continue
				}
				g.calleeUse[cs]++
				for _, c := range cs.Requires {
					pctx := &specCtx{g: g, st: st, old: g.entry}
					g.oblige(st, "requires", "callee "+cs.Name+" "+c.ID, "precondition of the receive "+name+": "+c.Src, g.evalGoal(pctx, c.E))
				}
				var results []Val
				if tv, ok := r.(TupleV); ok {
					results = tv.E
				} else {
					results = []Val{r}
				}
				ctx := &specCtx{g: g, st: st, old: st, results: results, resultNames: cs.Results, oldIsPre: true}
				if len(cs.Sets) > 0 {
					nv := map[string]Val{}
					for _, sc := range cs.Sets {
						nv[sc.Name] = g.evalSpec(ctx, sc.E)
					}
					for n, v := range nv {
						st.ghosts[n] = v
						g.noteGhostWrite(n)
					}
				}
				for _, c := range cs.Ensures {
					g.assume(st, g.evalAssume(ctx, c.E))
					if !g.discovery {
						g.trustedUsed["channel invariant assumed at receive "+name+": "+c.Src] = true
					}
				}
			}
		}
		return r
	}
	g.unsupported("unary " + x.Op.String())
	return nil
}

func pow2m1(bits int) string {
	switch bits {
	case 8:
		return "255"
	case 16:
		return "65535"
	case 32:
		return "4294967295"
	}
	return "18446744073709551615"
}

func pow2(bits int) string {
	switch bits {
	case 8:
		return "256"
	case 16:
		return "65536"
	case 32:
		return "4294967296"
	}
	return "18446744073709551616"
}

// wrap applies Go's wrap-around for the integer type t (Int mode). int/int64 are left mathematical.
func (g *Gen) wrap(term string, t types.Type) string {
	if g.bv {
		return g.bvNarrow(term, t)
	}
	bits, uns, ok := intBits(t)
	if !ok {
		return term
	}
	if uns {
		return "(mod " + term + " " + pow2(bits) + ")"
	}
	if bits == 64 {
		return term
	}
	half := map[int]string{8: "128", 16: "32768", 32: "2147483648"}[bits]
	return "(- (mod (+ " + term + " " + half + ") " + pow2(bits) + ") " + half + ")"
}

func (g *Gen) bvNarrow(term string, t types.Type) string {
	bits, uns, ok := intBits(t)
	if !ok || bits == 64 {
		return term
	}
	ext := "sign_extend"
	if uns {
		ext = "zero_extend"
	}
	return fmt.Sprintf("((_ %s %d) ((_ extract %d 0) %s))", ext, 64-bits, bits-1, term)
}

func (g *Gen) nilCheck(st *State, p PtrV) {
	if p.Cell != nil || strings.HasPrefix(p.RootKey, "G:") {
		return
	}
	if (g.spec != nil && g.spec.Options["check-nil"] != "") || os.Getenv("GOVC_CHECK_NIL_ALL") != "" {
		g.oblige(st, "nil", "", "nil pointer dereference", "(< 0 "+p.Ref+")")
	} else {
		g.assume(st, "(< 0 "+p.Ref+")")
	}
}

func (g *Gen) fieldAddr(st *State, p PtrV, field int, name string, ft types.Type) Val {
	if p.Cell != nil {
		return PtrV{Cell: p.Cell, CPath: append(append([]pstep(nil), p.CPath...), pstep{Field: field, Name: name}), Elem: ft}
	}
	g.nilCheck(st, p)
	np := p
	np.Steps = append(append([]pstep(nil), p.Steps...), pstep{Field: field, Name: name})
	np.Elem = ft
	return np
}

func (g *Gen) indexAddr(st *State, x *ssa.IndexAddr) Val {
	base := g.value(st, x.X)
	i := g.value(st, x.Index).(IntV).T
	switch b := base.(type) {
	case SliceV:
		g.oblige(st, "index", "", "index in range", and(g.le(g.num(0), i), g.lt(i, b.Len)))
		return PtrV{RootKey: typeKey(b.Elem), Ref: b.Ref, Idx: g.elemIdx(b.Off, i), Elem: b.Elem}
	case PtrV:
		arr := b.Elem.Underlying().(*types.Array)
		g.oblige(st, "index", "", "array index in range", and(g.le(g.num(0), i), g.lt(i, g.num(arr.Len()))))
		if b.Cell != nil {
			return PtrV{Cell: b.Cell, CPath: append(append([]pstep(nil), b.CPath...), pstep{Idx: i}), Elem: arr.Elem()}
		}
		if len(b.Steps) == 0 && b.RootKey == typeKey(arr.Elem()) {
			// pointer to an array block: element pointer in the element heap
			return PtrV{RootKey: b.RootKey, Ref: b.Ref, Idx: g.add(b.Idx, i), Elem: arr.Elem()}
		}
		np := b
		np.Steps = append(append([]pstep(nil), b.Steps...), pstep{Idx: i})
		np.Elem = arr.Elem()
		return np
	}
	g.unsupported(fmt.Sprintf("IndexAddr on %T", base))
	return nil
}

func (g *Gen) strAt(st *State, s StrV, i string) Val {
	v := IntV{"(select " + s.Arr + " " + g.elemIdx(s.Off, i) + ")"}
	g.assume(st, and("(<= 0 "+v.T+")", "(<= "+v.T+" 255)"))
	return v
}

func (g *Gen) indexVal(st *State, x *ssa.Index) Val {
	base := g.value(st, x.X)
	i := g.value(st, x.Index).(IntV).T
	switch b := base.(type) {
	case StrV:
		g.oblige(st, "index", "", "string index in range", and("(<= 0 "+i+")", "(< "+i+" "+b.Len+")"))
		return g.strAt(st, b, i)
	case ArrV:
		g.oblige(st, "index", "", "array index in range", and("(<= 0 "+i+")", fmt.Sprintf("(< %s %d)", i, b.N)))
		return g.cellGet(b, []pstep{{Idx: i}})
	}
	g.unsupported(fmt.Sprintf("Index on %T", base))
	return nil
}

func (g *Gen) sliceOp(st *State, x *ssa.Slice) Val {
	base := g.value(st, x.X)
	var lo, hi, mx string
	if x.Low != nil {
		lo = g.value(st, x.Low).(IntV).T
	}
	if x.High != nil {
		hi = g.value(st, x.High).(IntV).T
	}
	if x.Max != nil {
		mx = g.value(st, x.Max).(IntV).T
	}
	switch b := base.(type) {
	case SliceV:
		if lo == "" {
			lo = "0"
		}
		if hi == "" {
			hi = b.Len
		}
		bound := b.Cap
		if mx != "" {
			g.oblige(st, "slice", "", "slice bounds: 0 <= low <= high <= max <= cap", and("(<= 0 "+lo+")", "(<= "+lo+" "+hi+")", "(<= "+hi+" "+mx+")", "(<= "+mx+" "+b.Cap+")"))
			bound = mx
		} else {
			g.oblige(st, "slice", "", "slice bounds: 0 <= low <= high <= cap", and("(<= 0 "+lo+")", "(<= "+lo+" "+hi+")", "(<= "+hi+" "+b.Cap+")"))
		}
		return SliceV{Ref: b.Ref, Off: g.add(b.Off, lo), Len: g.sub(hi, lo), Cap: g.sub(bound, lo), Elem: b.Elem}
	case StrV:
		if lo == "" {
			lo = "0"
		}
		if hi == "" {
			hi = b.Len
		}
		g.oblige(st, "slice", "", "string slice bounds: 0 <= low <= high <= len", and("(<= 0 "+lo+")", "(<= "+lo+" "+hi+")", "(<= "+hi+" "+b.Len+")"))
		return StrV{b.Arr, g.add(b.Off, lo), g.sub(hi, lo)}
	case PtrV:
		arr, ok := b.Elem.Underlying().(*types.Array)
		if !ok {
			g.unsupported("slice of pointer to non-array")
		}
		if b.Cell != nil {
			g.unsupported("slice of a local array")
		}
		if len(b.Steps) != 0 || b.RootKey != typeKey(arr.Elem()) {
			g.unsupported("slice of an array embedded in a struct")
		}
		n := fmt.Sprint(arr.Len())
		if lo == "" {
			lo = "0"
		}
		if hi == "" {
			hi = n
		}
		g.oblige(st, "slice", "", "array slice bounds", and("(<= 0 "+lo+")", "(<= "+lo+" "+hi+")", "(<= "+hi+" "+n+")"))
		return SliceV{Ref: b.Ref, Off: g.add(b.Idx, lo), Len: g.sub(hi, lo), Cap: g.sub(n, lo), Elem: arr.Elem()}
	}
	g.unsupported(fmt.Sprintf("Slice on %T", base))
	return nil
}

func (g *Gen) makeSlice(st *State, x *ssa.MakeSlice) Val {
	l := g.value(st, x.Len).(IntV).T
	c := g.value(st, x.Cap).(IntV).T
	g.oblige(st, "makeslice", "", "make: 0 <= len <= cap", and("(<= 0 "+l+")", "(<= "+l+" "+c+")"))
	et := x.Type().Underlying().(*types.Slice).Elem()
	r := st.ac
	g.bumpAlloc(st)
	for _, lf := range g.leaves(et) {
		key := heapKey(typeKey(et), nil, lf.suffix)
		sort := nestSort(2, lf.sort)
		h := g.heapTerm(st, key, sort)
		g.setHeap(st, key, sort, "(store "+h+" "+r+" "+zeroOfSort(g, "(Array Int "+lf.sort+")")+")")
	}
	return SliceV{Ref: r, Off: "0", Len: l, Cap: c, Elem: et}
}

func (g *Gen) retype(v Val, t types.Type) Val {
	switch x := v.(type) {
	case StructV:
		x.T = t
		return x
	case SliceV:
		if s, ok := t.Underlying().(*types.Slice); ok {
			x.Elem = s.Elem()
		}
		return x
	case PtrV:
		if p, ok := t.Underlying().(*types.Pointer); ok && x.Cell == nil {
			if typeKey(p.Elem()) != x.RootKey && len(x.Steps) == 0 {
				// pointer to a different named type with identical underlying type: keep the heap component of the source
				x.Elem = p.Elem()
				return x
			}
			x.Elem = p.Elem()
		}
		return x
	case RefV:
		x.Typ = t
		return x
	}
	return v
}

func (g *Gen) convert(st *State, v Val, from, to types.Type) Val {
	fu, tu := from.Underlying(), to.Underlying()
	fb, fok := fu.(*types.Basic)
	tb, tok := tu.(*types.Basic)
	switch {
	case fok && tok && fb.Info()&types.IsInteger != 0 && tb.Info()&types.IsInteger != 0:
		iv := v.(IntV)
		if g.bv {
			return IntV{g.bvNarrow(iv.T, to)}
		}
		fbits, funs, _ := intBits(from)
		tbits, tuns, _ := intBits(to)
		// widening within the same signedness, or unsigned into a strictly wider signed type, keeps the value
		if (funs == tuns && tbits >= fbits) || (funs && !tuns && tbits > fbits) {
			return iv
		}
		if !tuns && tbits == 64 {
			// uint64 -> int64 and friends: two's complement reinterpretation
			if funs && fbits == 64 {
				return IntV{ite("(< "+iv.T+" 9223372036854775808)", iv.T, "(- "+iv.T+" 18446744073709551616)")}
			}
			return iv
		}
		return IntV{g.wrap(iv.T, to)}
	case fok && tok && fb.Info()&types.IsString != 0 && tb.Info()&types.IsString != 0:
		return v
	case tok && tb.Info()&types.IsString != 0:
		// string(bytes) / string(rune)
		if sv, ok := v.(SliceV); ok {
			et := sv.Elem.Underlying().(*types.Basic)
			if et.Kind() == types.Uint8 {
				h := g.heapTerm(st, heapKey(typeKey(sv.Elem), nil, ""), nestSort(2, "Int"))
				res := StrV{"(select " + h + " " + sv.Ref + ")", sv.Off, sv.Len}
				// string(b) copies: the result is not a view of anybody's memory (uf_viewref: see ByteToStringUnsafe in contracts-lib)
				if !g.bv {
					name := symq("uf_viewref")
					if !g.declared[name] {
						g.declared[name] = true
						g.emit("(declare-fun " + name + " ((Array Int Int) Int Int) " + g.intSort() + ")")
					}
					g.assume(st, "(= ("+name+" "+res.Arr+" "+res.Off+" "+res.Len+") 0)")
				}
				return res
			}
		}
		g.note("convert", "conversion to string: result unconstrained")
		r, inv := g.freshVal(to, "str")
		g.assume(st, inv)
		return r
	case fok && fb.Info()&types.IsString != 0:
		if sl, ok := tu.(*types.Slice); ok {
			if eb, ok := sl.Elem().Underlying().(*types.Basic); ok && eb.Kind() == types.Uint8 {
				s := v.(StrV)
				return g.allocBytesFrom(st, s, sl.Elem())
			}
		}
		g.note("convert", "conversion from string: result unconstrained")
		r, inv := g.freshVal(to, "conv")
		g.assume(st, inv)
		g.assume(st, g.allocatedInv(st, r, to))
		return r
	case fok && tok && (fb.Info()&types.IsFloat != 0 || tb.Info()&types.IsFloat != 0):
		if fb.Info()&types.IsInteger != 0 && tb.Info()&types.IsFloat != 0 && !g.bv {
			return RealV{"(to_real " + v.(IntV).T + ")"}
		}
		if fb.Info()&types.IsFloat != 0 && tb.Info()&types.IsFloat != 0 {
			return v
		}
		g.note("float", "float->int conversion unconstrained")
		r, inv := g.freshVal(to, "f2i")
		g.assume(st, inv)
		return r
	}
	if _, ok := tu.(*types.Pointer); ok {
		if _, ok := fu.(*types.Basic); ok { // unsafe.Pointer -> *T
			g.note("unsafe", "unsafe pointer conversion: result unconstrained")
			r, inv := g.freshVal(to, "unsafe")
			g.assume(st, inv)
			return r
		}
	}
	if tok && tb.Kind() == types.UnsafePointer {
		g.note("unsafe", "conversion to unsafe.Pointer")
		return RefV{g.fresh("unsafe", "Int"), to}
	}
	// slices of named element types etc.
	return g.retype(v, to)
}

// allocBytesFrom allocates a fresh byte block holding the sequence s.
func (g *Gen) allocBytesFrom(st *State, s StrV, elem types.Type) Val {
	r := st.ac
	g.bumpAlloc(st)
	key := heapKey(typeKey(elem), nil, "")
	sort := nestSort(2, "Int")
	h := g.heapTerm(st, key, sort)
	blk := g.fresh("blk", "(Array Int Int)")
	g.emit(fmt.Sprintf("(assert (forall ((i Int)) (! (=> (and (<= 0 i) (< i %s)) (= (select %s i) (select %s (+ %s i)))) :pattern ((select %s i)))))", s.Len, blk, s.Arr, s.Off, blk))
	g.setHeap(st, key, sort, "(store "+h+" "+r+" "+blk+")")
	return SliceV{Ref: r, Off: "0", Len: s.Len, Cap: s.Len, Elem: elem}
}

func (g *Gen) typeID(t types.Type) string {
	k := typeKey(t)
	id, ok := g.typeIDs[k]
	if !ok {
		id = len(g.typeIDs) + 1
		g.typeIDs[k] = id
	}
	return fmt.Sprint(id)
}

func (g *Gen) makeIface(st *State, v Val, t types.Type) Val {
	iv := IfaceV{Tag: g.typeID(t), Conc: v, ConcT: t}
	switch x := v.(type) {
	case PtrV:
		if x.Cell == nil {
			iv.Pay = x.Ref
		} else {
			iv.Pay = g.fresh("pay", "Int")
		}
	case IntV:
		if g.bv {
			iv.Pay = g.fresh("pay", "Int")
		} else {
			iv.Pay = x.T
		}
	case RefV:
		iv.Pay = x.T
	default:
		iv.Pay = g.fresh("pay", "Int")
	}
	return iv
}

func (g *Gen) typeAssert(st *State, x *ssa.TypeAssert) Val {
	iv := g.value(st, x.X).(IfaceV)
	var ok string
	var res Val
	if _, isIface := x.AssertedType.Underlying().(*types.Interface); isIface {
		if iv.ConcT != nil && types.Implements(iv.ConcT, x.AssertedType.Underlying().(*types.Interface)) {
			ok = "true"
		} else {
			ok = g.fresh("taok", "Bool")
			g.emit("(assert (=> " + ok + " (not (= " + iv.Tag + " 0))))")
		}
		res = iv
	} else {
		ok = "(= " + iv.Tag + " " + g.typeID(x.AssertedType) + ")"
		if iv.ConcT != nil && types.Identical(iv.ConcT, x.AssertedType) {
			res = iv.Conc
		} else {
			r, inv := g.freshVal(x.AssertedType, "ta")
			if p, isP := r.(PtrV); isP {
				p.Ref = iv.Pay
				p.Idx = "0"
				r = p
			}
			if i, isI := r.(IntV); isI && !g.bv {
				_ = i
				r = IntV{iv.Pay}
			}
			g.assume(st, implies(ok, inv))
			res = r
		}
	}
	if x.CommaOk {
		return TupleV{E: []Val{res, BoolV{ok}}}
	}
	if g.spec != nil && g.spec.Options["allow-panic"] != "" && types.IsInterface(x.AssertedType) {
		// a function whose contract allows it to panic (configuration-time code): a failed assertion to an interface type
		// is such a panic; execution continues only where it held
		g.assume(st, ok)
		return res
	}
	g.oblige(st, "typeassert", "", "type assertion holds", ok)
	return res
}

func (g *Gen) execReturn(st *State, r *ssa.Return) {
	g.retCount++
	var results []Val
	for _, v := range r.Results {
		results = append(results, g.value(st, v))
	}
	if g.inlineRets != nil {
		*g.inlineRets = append(*g.inlineRets, inlineRet{st, results})
		return
	}
	if g.spec == nil {
		return
	}
	// `option constructor yes`: the function sets up its receiver before the receiver is shared (Start of a plugin): the
	// lock obligations on the receiver's protected fields are waived (listed assumption) - and in exchange every monitor
	// invariant of the receiver's type must hold when it returns, because the first Lock by anybody will assume it
	if g.constructorRef != "" && g.W.monitors != nil && len(g.fn.Params) > 0 {
		if base, ok := g.paramVals[g.fn.Params[0].Name()].(PtrV); ok && base.Cell == nil {
			for _, mon := range g.W.monitors {
				if typeKeyOfMonitor(mon) == base.RootKey {
					ls := &lockSite{mon: mon, base: PtrV{RootKey: base.RootKey, Ref: base.Ref, Idx: base.Idx, Elem: base.Elem}, key: g.monKey(base, mon)}
					g.monitorInvariant(st, ls, false, "return of the constructor")
				}
			}
		}
	}
	ctx := &specCtx{g: g, st: st, old: g.entry, results: results, resultNames: g.resultNames(), paramsEntry: true}
	for _, c := range g.spec.Ensures {
		if g.driftedInv[c] {
			continue
		}
		// a postcondition over a local the changed code no longer has (a loop that was removed ...) is contract drift
		goal, ok := g.evalGoalOrDrift(ctx, c, "postcondition")
		if !ok {
			continue
		}
		g.oblige(st, "ensures", c.ID, "postcondition "+c.Src, goal)
	}
}

func (g *Gen) resultNames() []string {
	if g.spec != nil && g.spec.ResultsOv != nil {
		return g.spec.ResultsOv
	}
	var out []string
	res := g.fn.Signature.Results()
	for i := 0; i < res.Len(); i++ {
		out = append(out, res.At(i).Name())
	}
	return out
}

// ---------- binary operators ----------

func (g *Gen) binop(st *State, op token.Token, x, y Val, xt, rt types.Type) Val {
	switch a := x.(type) {
	case IntV:
		b, ok := y.(IntV)
		if !ok {
			g.unsupported("binop int with non-int")
		}
		return g.intBinop(st, op, a.T, b.T, xt, rt)
	case BoolV:
		b := y.(BoolV)
		switch op {
		case token.EQL:
			return BoolV{eq(a.T, b.T)}
		case token.NEQ:
			return BoolV{not(eq(a.T, b.T))}
		case token.AND, token.LAND:
			return BoolV{and(a.T, b.T)}
		case token.OR, token.LOR:
			return BoolV{or(a.T, b.T)}
		}
	case RealV:
		b := y.(RealV)
		switch op {
		case token.ADD:
			return RealV{"(+ " + a.T + " " + b.T + ")"}
		case token.SUB:
			return RealV{"(- " + a.T + " " + b.T + ")"}
		case token.LSS:
			return BoolV{"(< " + a.T + " " + b.T + ")"}
		case token.LEQ:
			return BoolV{"(<= " + a.T + " " + b.T + ")"}
		case token.GTR:
			return BoolV{"(> " + a.T + " " + b.T + ")"}
		case token.GEQ:
			return BoolV{"(>= " + a.T + " " + b.T + ")"}
		case token.EQL:
			return BoolV{eq(a.T, b.T)}
		case token.NEQ:
			return BoolV{not(eq(a.T, b.T))}
		}
		g.note("float", "float arithmetic "+op.String()+" unconstrained")
		return RealV{g.fresh("flt", "Real")}
	case StrV:
		b := y.(StrV)
		switch op {
		case token.EQL:
			return BoolV{g.strEq(a, b)}
		case token.NEQ:
			return BoolV{not(g.strEq(a, b))}
		case token.ADD:
			return g.strConcat(a, b)
		}
		return BoolV{g.fresh("strcmp", "Bool")}
	case PtrV:
		b, ok := y.(PtrV)
		if !ok {
			g.unsupported("pointer compared with non-pointer")
		}
		var e string
		if a.Cell != nil || b.Cell != nil {
			if a.Cell == b.Cell && len(a.CPath) == len(b.CPath) {
				e = "true"
			} else {
				e = "false"
			}
		} else {
			// nil pointers are equal whatever index term they carry
			e = and(eq(a.Ref, b.Ref), "(or (= "+a.Ref+" 0) "+eq(a.Idx, b.Idx)+")")
			if a.Ref == "0" || b.Ref == "0" {
				e = eq(a.Ref, b.Ref)
			}
		}
		if op == token.EQL {
			return BoolV{e}
		}
		return BoolV{not(e)}
	case IfaceV:
		b, ok := y.(IfaceV)
		if !ok {
			g.unsupported("interface compared with non-interface")
		}
		var e string
		if a.Tag == "0" || b.Tag == "0" {
			e = eq(a.Tag, b.Tag)
		} else {
			e = and(eq(a.Tag, b.Tag), eq(a.Pay, b.Pay))
		}
		if op == token.EQL {
			return BoolV{e}
		}
		return BoolV{not(e)}
	case SliceV:
		b := y.(SliceV)
		// only comparison with nil is legal
		e := eq(a.Ref, b.Ref)
		if op == token.EQL {
			return BoolV{e}
		}
		return BoolV{not(e)}
	case RefV:
		var bt string
		switch b := y.(type) {
		case RefV:
			bt = b.T
		case FuncV:
			bt = b.T
		}
		e := eq(a.T, bt)
		if op == token.EQL {
			return BoolV{e}
		}
		return BoolV{not(e)}
	case FuncV:
		// comparison with nil
		at := a.T
		if a.Fn != nil {
			at = "1"
		}
		if at == "" {
			at = "0"
		}
		bt := "0"
		if b, ok := y.(FuncV); ok {
			if b.Fn != nil {
				bt = "1"
			} else if b.T != "" {
				bt = b.T
			}
		}
		e := eq(at, bt)
		if op == token.EQL {
			return BoolV{e}
		}
		return BoolV{not(e)}
	case StructV:
		b := y.(StructV)
		fa := g.flatten(a, a.T)
		fb := g.flatten(b, a.T)
		var cs []string
		for i := range fa {
			cs = append(cs, eq(fa[i], fb[i]))
		}
		e := and(cs...)
		if op == token.EQL {
			return BoolV{e}
		}
		return BoolV{not(e)}
	}
	g.unsupported(fmt.Sprintf("binop %s on %T", op, x))
	return nil
}

func (g *Gen) strEq(a, b StrV) string {
	if a.Arr == b.Arr && a.Off == b.Off {
		return eq(a.Len, b.Len)
	}
	// literal on one side: expand
	if n, ok := litLen(b.Len); ok && n <= 32 {
		cs := []string{eq(a.Len, b.Len)}
		for i := 0; i < n; i++ {
			cs = append(cs, fmt.Sprintf("(= (select %s (+ %s %d)) (select %s (+ %s %d)))", a.Arr, a.Off, i, b.Arr, b.Off, i))
		}
		return and(cs...)
	}
	if n, ok := litLen(a.Len); ok && n <= 32 {
		return g.strEq(b, a)
	}
	return fmt.Sprintf("(and (= %s %s) (forall ((i Int)) (=> (and (<= 0 i) (< i %s)) (= (select %s (+ %s i)) (select %s (+ %s i))))))", a.Len, b.Len, a.Len, a.Arr, a.Off, b.Arr, b.Off)
}

func litLen(s string) (int, bool) {
	n := 0
	if s == "" {
		return 0, false
	}
	for _, c := range s {
		if c < '0' || c > '9' {
			return 0, false
		}
		n = n*10 + int(c-'0')
		if n > 1<<20 {
			return 0, false
		}
	}
	return n, true
}

func (g *Gen) strConcat(a, b StrV) Val {
	arr := g.fresh("cat", "(Array Int Int)")
	g.emit(fmt.Sprintf("(assert (forall ((i Int)) (! (and (=> (and (<= 0 i) (< i %s)) (= (select %s i) (select %s (+ %s i)))) (=> (and (<= %s i) (< i (+ %s %s))) (= (select %s i) (select %s (+ %s (- i %s)))))) :pattern ((select %s i)))))",
		a.Len, arr, a.Arr, a.Off, a.Len, a.Len, b.Len, arr, b.Arr, b.Off, a.Len, arr))
	return StrV{arr, "0", "(+ " + a.Len + " " + b.Len + ")"}
}

func (g *Gen) intBinop(st *State, op token.Token, a, b string, xt, rt types.Type) Val {
	if g.bv {
		return g.bvBinop(st, op, a, b, xt, rt)
	}
	switch op {
	case token.ADD:
		if bits, uns, _ := intBits(rt); uns && bits == 64 {
			return IntV{"(+ " + a + " " + b + ")"} // 64-bit unsigned addition treated as mathematical (like int/int64): listed assumption
		}
		return IntV{g.wrap("(+ "+a+" "+b+")", rt)}
	case token.SUB:
		return IntV{g.wrap("(- "+a+" "+b+")", rt)}
	case token.MUL:
		if bits, uns, _ := intBits(rt); uns && bits == 64 {
			return IntV{"(* " + a + " " + b + ")"}
		}
		return IntV{g.wrap("(* "+a+" "+b+")", rt)}
	case token.QUO:
		g.oblige(st, "div", "", "division by zero", not(eq(b, "0")))
		// Go truncates toward zero
		q := fmt.Sprintf("(ite (>= %s 0) (div %s %s) (- (div (- %s) %s)))", a, a, b, a, b)
		if _, uns, _ := intBits(rt); uns {
			q = "(div " + a + " " + b + ")"
		}
		return IntV{q}
	case token.REM:
		g.oblige(st, "div", "", "division by zero", not(eq(b, "0")))
		r := fmt.Sprintf("(ite (>= %s 0) (mod %s %s) (- (mod (- %s) %s)))", a, a, b, a, b)
		if _, uns, _ := intBits(rt); uns {
			r = "(mod " + a + " " + b + ")"
		}
		return IntV{r}
	case token.EQL:
		return BoolV{eq(a, b)}
	case token.NEQ:
		return BoolV{not(eq(a, b))}
	case token.LSS:
		return BoolV{"(< " + a + " " + b + ")"}
	case token.LEQ:
		return BoolV{"(<= " + a + " " + b + ")"}
	case token.GTR:
		return BoolV{"(> " + a + " " + b + ")"}
	case token.GEQ:
		return BoolV{"(>= " + a + " " + b + ")"}
	case token.SHL:
		if n, ok := litLen(b); ok && n < 64 {
			return IntV{g.wrap(fmt.Sprintf("(* %s %s)", a, pow2str(n)), rt)}
		}
	case token.SHR:
		if n, ok := litLen(b); ok && n < 64 {
			return IntV{fmt.Sprintf("(div %s %s)", a, pow2str(n))}
		}
	case token.AND:
		// x & (2^k-1) == x mod 2^k for non-negative x
		if n, ok := litBig(b); ok && isPow2m1(n) {
			if _, uns, _ := intBits(xt); uns {
				return IntV{fmt.Sprintf("(mod %s %s)", a, addOne(n))}
			}
			return IntV{fmt.Sprintf("(mod %s %s)", a, addOne(n))} // two's complement: also true for negative x
		}
	}
	// uninterpreted fallback (sound: no facts)
	f := "bvop_" + sanitize(op.String())
	fn := symq(f)
	if !g.declared[fn] {
		g.declared[fn] = true
		g.emit("(declare-fun " + fn + " (Int Int) Int)")
	}
	r := IntV{"(" + fn + " " + a + " " + b + ")"}
	g.assume(st, g.typeInv(r, rt))
	g.note("bitop", "bit operation "+op.String()+" uninterpreted in int mode")
	return r
}

func pow2str(n int) string {
	v := uint64(1) << uint(n)
	return fmt.Sprint(v)
}

func litBig(s string) (uint64, bool) {
	var n uint64
	if s == "" {
		return 0, false
	}
	for _, c := range s {
		if c < '0' || c > '9' {
			return 0, false
		}
		d := uint64(c - '0')
		if n > (1<<63)/5 {
			return 0, false
		}
		n = n*10 + d
	}
	return n, true
}

func isPow2m1(n uint64) bool { return n != 0 && (n&(n+1)) == 0 }
func addOne(n uint64) string { return fmt.Sprint(n + 1) }

func (g *Gen) bvBinop(st *State, op token.Token, a, b string, xt, rt types.Type) Val {
	_, uns, _ := intBits(xt)
	nar := func(t string) Val { return IntV{g.bvNarrow(t, rt)} }
	switch op {
	case token.ADD:
		return nar("(bvadd " + a + " " + b + ")")
	case token.SUB:
		return nar("(bvsub " + a + " " + b + ")")
	case token.MUL:
		return nar("(bvmul " + a + " " + b + ")")
	case token.AND:
		return nar("(bvand " + a + " " + b + ")")
	case token.OR:
		return nar("(bvor " + a + " " + b + ")")
	case token.XOR:
		return nar("(bvxor " + a + " " + b + ")")
	case token.AND_NOT:
		return nar("(bvand " + a + " (bvnot " + b + "))")
	case token.SHL:
		return nar("(bvshl " + a + " " + b + ")")
	case token.SHR:
		if uns {
			return nar("(bvlshr " + a + " " + b + ")")
		}
		return nar("(bvashr " + a + " " + b + ")")
	case token.QUO:
		g.oblige(st, "div", "", "division by zero", not(eq(b, g.pnum(0))))
		if uns {
			return nar("(bvudiv " + a + " " + b + ")")
		}
		return nar("(bvsdiv " + a + " " + b + ")")
	case token.REM:
		g.oblige(st, "div", "", "division by zero", not(eq(b, g.pnum(0))))
		if uns {
			return nar("(bvurem " + a + " " + b + ")")
		}
		return nar("(bvsrem " + a + " " + b + ")")
	case token.EQL:
		return BoolV{eq(a, b)}
	case token.NEQ:
		return BoolV{not(eq(a, b))}
	}
	pre := "bvs"
	if uns {
		pre = "bvu"
	}
	switch op {
	case token.LSS:
		return BoolV{"(" + pre + "lt " + a + " " + b + ")"}
	case token.LEQ:
		return BoolV{"(" + pre + "le " + a + " " + b + ")"}
	case token.GTR:
		return BoolV{"(" + pre + "gt " + a + " " + b + ")"}
	case token.GEQ:
		return BoolV{"(" + pre + "ge " + a + " " + b + ")"}
	}
	g.unsupported("bv binop " + op.String())
	return nil
}

// anchored checks the `assert at|after "text"` clauses whose anchor occurs in the given source line.
func (g *Gen) anchored(st *State, line, kind string) {
	if line == "" || g.spec == nil {
		return
	}
	if kind == "assert-at" {
		for anchor, sets := range g.spec.SetAts {
			if !g.anchorIn(line, anchor) {
				continue
			}
			ctx := &specCtx{g: g, st: st, old: g.entry}
			nv := map[string]Val{}
			for _, sc := range sets {
				nv[sc.Name] = g.evalSpec(ctx, sc.E)
				g.setAtUse[sc]++
			}
			for n, v := range nv {
				if _, ok := st.ghosts[n]; !ok {
					g.unsupported("setat of undeclared ghost " + n)
				}
				st.ghosts[n] = v
				g.noteGhostWrite(n)
			}
		}
	}
	if len(g.spec.Asserts) == 0 {
		return
	}
	for anchor, cl := range g.spec.Asserts {
		if !g.anchorIn(line, anchor) {
			continue
		}
		for _, c := range cl {
			if c.Kind == "assume-at" && kind == "assert-at" {
				ctx := &specCtx{g: g, st: st, old: g.entry}
				g.assertUse[c]++
				a, ok := "", true
				func() {
					defer func() {
						if r := recover(); r != nil {
							if u, isU := r.(unsupportedErr); isU && strings.Contains(u.msg, "unknown identifier") {
								ok = false
								g.anchorNotes = append(g.anchorNotes, "assume at `"+anchor+"` names a variable the code no longer has: "+u.msg)
								return
							}
							panic(r)
						}
					}()
					a = g.evalAssume(ctx, c.E)
				}()
				if !ok {
					continue
				}
				g.assume(st, a)
				if !g.discovery {
					g.trustedUsed["explicit assumption at `"+anchor+"`: "+c.Src] = true
				}
				continue
			}
			if c.Kind == "cover-at" && kind == "assert-at" {
				g.assertUse[c]++
				if g.discovery {
					continue
				}
				ctx := &specCtx{g: g, st: st, old: g.entry}
				fnName := g.rootFn.RelString(g.rootFn.Pkg.Pkg)
				pos := g.posStr(g.curPos)
				site := fmt.Sprintf("%s/cover@%s", fnName, pos)
				// a cover clause that names a local the changed code no longer has is drift (dropped for this run), as for invariants
				cov, okc := g.evalAssumeOrDrift(ctx, c, "cover at")
				if !okc {
					continue
				}
				g.oblCount[site]++
				g.obls = append(g.obls, &Obligation{Name: fmt.Sprintf("%s#%d", site, g.oblCount[site]), Clause: fnName + " :: " + c.ID, Kind: "cover", Pos: pos,
					Src: g.W.sourceLine(g.curPos), Desc: "reachable with " + c.Src, Func: fnName, prefix: len(g.lines), pc: st.pc,
					goal: "(not " + cov + ")", Cover: true})
				continue
			}
			if c.Kind != kind {
				continue
			}
			ctx := &specCtx{g: g, st: st, old: g.entry}
			goal, ok := "", true
			func() {
				// an anchored assertion that names a local the code no longer has is contract drift
				// (reported, undecided), not a reason to give up the whole function
				defer func() {
					if r := recover(); r != nil {
						if u, isU := r.(unsupportedErr); isU && strings.Contains(u.msg, "unknown identifier") {
							ok = false
							g.anchorNotes = append(g.anchorNotes, "assert at `"+anchor+"` names a variable the code no longer has: "+u.msg)
							return
						}
						panic(r)
					}
				}()
				goal = g.evalGoal(ctx, c.E)
			}()
			g.assertUse[c]++
			if !ok {
				continue
			}
			g.oblige(st, "assert", c.ID, "assertion "+c.Src, goal)
		}
	}
}

// cellOnlyAlloc: the address of this local is used only for loads, stores and closure capture by closures that
// themselves only load / store through it.
func cellOnlyAlloc(a *ssa.Alloc) bool {
	refs := a.Referrers()
	if refs == nil {
		return false
	}
	for _, r := range *refs {
		switch x := r.(type) {
		case *ssa.UnOp:
			if x.Op != token.MUL {
				return false
			}
		case *ssa.Store:
			if x.Addr != ssa.Value(a) || x.Val == ssa.Value(a) {
				return false
			}
		case *ssa.DebugRef:
		case *ssa.MakeClosure:
			fn, ok := x.Fn.(*ssa.Function)
			if !ok {
				return false
			}
			for i, b := range x.Bindings {
				if b == ssa.Value(a) {
					if i >= len(fn.FreeVars) || !onlyLoadStore(fn.FreeVars[i]) {
						return false
					}
				}
			}
		default:
			return false
		}
	}
	return true
}
