//go:build ignore

package main

import (
	"fmt"
	"os"

	"golang.org/x/tools/go/packages"
	"golang.org/x/tools/go/ssa"
	"golang.org/x/tools/go/ssa/ssautil"
)

func main() {
	cfg := &packages.Config{Mode: packages.LoadSyntax, Dir: "/repo", BuildFlags: []string{"-tags=verif"}}
	pkgs, err := packages.Load(cfg, os.Args[1])
	if err != nil {
		panic(err)
	}
	prog, spkgs := ssautil.Packages(pkgs, ssa.NaiveForm|ssa.GlobalDebug)
	for _, p := range spkgs {
		if p != nil {
			p.Build()
		}
	}
	for fn := range ssautil.AllFunctions(prog) {
		if fn.Pkg == spkgs[0] && fn.RelString(fn.Pkg.Pkg) == os.Args[2] {
			fn.WriteTo(os.Stdout)
			for _, l := range fn.Locals {
				fmt.Println("local", l.Name(), l.Comment, l.Heap)
			}
		}
	}
}
