package main

import (
	"go/types"

	"golang.org/x/tools/go/ssa"
)

// ownedSliceValues: SSA values of slice type whose backing array was allocated by this function (make / growing append)
// and never handed to anything that could keep or publish it (no call argument, no store into memory other than an owned
// local, no interface conversion, no channel send, no closure capture, no return).  Such a block cannot be reachable from
// shared state, whatever other goroutines do: when shared state is re-read after a Lock (havocked), it cannot alias it.
// The analysis is flow-insensitive (it holds at every program point, in particular across loop cuts) and optimistic:
// start from "every non-escaping local slice cell is owned", remove violators until stable.
func ownedSliceValues(fn *ssa.Function) map[ssa.Value]bool {
	cells := map[*ssa.Alloc]bool{}
	for _, b := range fn.Blocks {
		for _, in := range b.Instrs {
			if a, ok := in.(*ssa.Alloc); ok && !a.Heap {
				if pt, ok := a.Type().Underlying().(*types.Pointer); ok {
					if _, ok := pt.Elem().Underlying().(*types.Slice); ok {
						cells[a] = true
					}
				}
			}
		}
	}
	var owned map[ssa.Value]bool
	for {
		owned = map[ssa.Value]bool{}
		// derive owned values (iterate: Slice / append chains)
		for changed := true; changed; {
			changed = false
			for _, b := range fn.Blocks {
				for _, in := range b.Instrs {
					v, isVal := in.(ssa.Value)
					if !isVal || owned[v] {
						continue
					}
					ok := false
					switch x := in.(type) {
					case *ssa.MakeSlice:
						ok = true
					case *ssa.Slice:
						ok = owned[x.X]
						// make([]T, <constant>) is emitted as new [n]T followed by a slice of it
						if a, isA := x.X.(*ssa.Alloc); isA && !ok {
							if pt, isP := a.Type().Underlying().(*types.Pointer); isP {
								if _, isArr := pt.Elem().Underlying().(*types.Array); isArr && a.Referrers() != nil && len(*a.Referrers()) == 1 {
									ok = true
								}
							}
						}
					case *ssa.UnOp:
						if a, isA := x.X.(*ssa.Alloc); isA && cells[a] {
							ok = true
						}
					case *ssa.Call:
						if bi, isB := x.Call.Value.(*ssa.Builtin); isB && bi.Name() == "append" && len(x.Call.Args) > 0 {
							ok = owned[x.Call.Args[0]]
						}
					}
					if ok {
						owned[v] = true
						changed = true
					}
				}
			}
		}
		// check the cells
		bad := map[*ssa.Alloc]bool{}
		cellOf := func(v ssa.Value) []*ssa.Alloc {
			// the cells whose ownership v's ownership rests on (conservatively: all of them when derived through a load)
			var out []*ssa.Alloc
			seen := map[ssa.Value]bool{}
			var walk func(v ssa.Value)
			walk = func(v ssa.Value) {
				if seen[v] {
					return
				}
				seen[v] = true
				switch x := v.(type) {
				case *ssa.UnOp:
					if a, ok := x.X.(*ssa.Alloc); ok && cells[a] {
						out = append(out, a)
					}
				case *ssa.Slice:
					walk(x.X)
				case *ssa.Call:
					if len(x.Call.Args) > 0 {
						walk(x.Call.Args[0])
					}
				}
			}
			walk(v)
			return out
		}
		escape := func(v ssa.Value) {
			if owned[v] {
				for _, a := range cellOf(v) {
					bad[a] = true
				}
			}
		}
		for _, b := range fn.Blocks {
			for _, in := range b.Instrs {
				switch x := in.(type) {
				case *ssa.Store:
					if a, ok := x.Addr.(*ssa.Alloc); ok && cells[a] {
						if !owned[x.Val] {
							// nil / zero constants are fine
							if c, isC := x.Val.(*ssa.Const); !isC || !c.IsNil() {
								bad[a] = true
							}
						}
					} else {
						escape(x.Val)
					}
				case *ssa.Call:
					if bi, isB := x.Call.Value.(*ssa.Builtin); isB {
						switch bi.Name() {
						case "append":
							// arg0 stays owned through the result; the appended elements are copied out of arg1
						case "len", "cap", "copy", "clear":
						default:
							for _, a := range x.Call.Args {
								escape(a)
							}
						}
					} else {
						for _, a := range x.Call.Args {
							escape(a)
						}
						escape(x.Call.Value)
					}
				case *ssa.Defer:
					for _, a := range x.Call.Args {
						escape(a)
					}
				case *ssa.Go:
					for _, a := range x.Call.Args {
						escape(a)
					}
				case *ssa.MakeInterface:
					escape(x.X)
				case *ssa.Send:
					escape(x.X)
				case *ssa.Return:
					for _, r := range x.Results {
						escape(r)
					}
				case *ssa.MakeClosure:
					for _, bnd := range x.Bindings {
						escape(bnd)
						if a, ok := bnd.(*ssa.Alloc); ok && cells[a] {
							bad[a] = true
						}
					}
				case *ssa.ChangeType:
					escape(x.X)
				case *ssa.Convert:
					escape(x.X)
				case *ssa.Phi:
					for _, e := range x.Edges {
						escape(e)
					}
				case *ssa.MapUpdate:
					escape(x.Value)
					escape(x.Key)
				case *ssa.IndexAddr:
					// &s[i]: fine while the pointer is only dereferenced here
					if owned[x.X] {
						for _, r := range *x.Referrers() {
							switch rr := r.(type) {
							case *ssa.Store:
								if rr.Addr != ssa.Value(x) {
									escape(x.X)
								}
							case *ssa.UnOp:
							default:
								escape(x.X)
							}
						}
					}
				}
			}
		}
		if len(bad) == 0 {
			return owned
		}
		for a := range bad {
			delete(cells, a)
		}
	}
}
