package main

import (
	"fmt"
	"go/token"
	"go/types"
	"sort"
	"strings"

	"golang.org/x/tools/go/ssa"
)

var benignPkgs = map[string]bool{
	"go.uber.org/zap": true, "go.uber.org/zap/zapcore": true,
	"github.com/prometheus/client_golang/prometheus": true,
	"fmt": true, "errors": true, "strconv": true, "time": true, "math": true, "unicode/utf8": true, "unicode": true,
	"github.com/ozontech/file.d/logger": true, "github.com/ozontech/file.d/metric": true,
	"go.uber.org/atomic": false, "math/rand": true, "log": true, "runtime": true, "os/signal": false,
	"github.com/ozontech/file.d/xtime": true, "path/filepath": true, "regexp": true, "sort": false,
}

// package-level functions (not methods) of these packages do not write caller-visible memory
var pureFuncPkgs = map[string]bool{"bytes": true, "strings": true}

func isExitName(n string) bool {
	for _, p := range []string{"Fatal", "Panic", "DPanic"} {
		if strings.HasPrefix(n, p) {
			return true
		}
	}
	return false
}

func (g *Gen) calleeKeys(c *ssa.CallCommon) (keys []string, static *ssa.Function, pkgPath string, name string) {
	if c.IsInvoke() {
		name = c.Method.Name()
		keys = append(keys, name)
		if n, ok := c.Value.Type().(*types.Named); ok {
			keys = append(keys, n.Obj().Name()+"."+name)
			if n.Obj().Pkg() != nil {
				pkgPath = n.Obj().Pkg().Path()
			}
		}
		if c.Method.Pkg() != nil && pkgPath == "" {
			pkgPath = c.Method.Pkg().Path()
		}
		return
	}
	switch v := c.Value.(type) {
	case *ssa.Function:
		static = v
	case *ssa.MakeClosure:
		static = v.Fn.(*ssa.Function)
	}
	if static != nil {
		name = static.Name()
		keys = append(keys, name)
		if o := static.Origin(); o != nil && o != static {
			// instantiation of a generic function: also match its plain name
			name = o.Name()
			keys = append(keys, o.Name())
		}
		if static.Pkg != nil {
			pkgPath = static.Pkg.Pkg.Path()
			keys = append(keys, static.RelString(g.fn.Pkg.Pkg), static.String())
			keys = append(keys, static.Pkg.Pkg.Name()+"."+name)
		} else if static.Signature.Recv() != nil {
			// method of an instantiated or external type
			keys = append(keys, static.String())
			if rp := recvNamed(static.Signature.Recv().Type()); rp != nil && rp.Obj().Pkg() != nil {
				pkgPath = rp.Obj().Pkg().Path()
			}
		} else {
			keys = append(keys, static.String())
		}
		if static.Signature.Recv() != nil {
			if rp := recvNamed(static.Signature.Recv().Type()); rp != nil {
				keys = append(keys, rp.Obj().Name()+"."+name)
				if rp.Obj().Pkg() != nil {
					pkgPath = rp.Obj().Pkg().Path()
				}
			}
		}
		return
	}
	// dynamic call through a function value
	name = g.describeValue(c.Value)
	keys = append(keys, name)
	return
}

func recvNamed(t types.Type) *types.Named {
	if p, ok := t.(*types.Pointer); ok {
		t = p.Elem()
	}
	n, _ := t.(*types.Named)
	return n
}

func (g *Gen) describeValue(v ssa.Value) string {
	switch x := v.(type) {
	case *ssa.UnOp:
		if x.Op == token.MUL {
			switch a := x.X.(type) {
			case *ssa.FieldAddr:
				st := a.X.Type().Underlying().(*types.Pointer).Elem().Underlying().(*types.Struct)
				return st.Field(a.Field).Name()
			case *ssa.Alloc:
				return a.Comment
			case *ssa.FreeVar:
				return a.Name()
			case *ssa.Global:
				return a.Name()
			}
		}
	case *ssa.Parameter:
		return x.Name()
	case *ssa.Field:
		st := x.X.Type().Underlying().(*types.Struct)
		return st.Field(x.Field).Name()
	case *ssa.Extract:
		return "extract"
	case *ssa.Lookup:
		// m[k1][k2] = v: the inner map is "m[]"
		return g.describeValue(x.X) + "[]"
	}
	return "?"
}

func (g *Gen) call(st *State, site ssa.Instruction, c *ssa.CallCommon, rt types.Type) Val {
	if b, ok := c.Value.(*ssa.Builtin); ok {
		return g.builtin(st, b, c, rt)
	}
	if rt == nil {
		rt = c.Signature().Results()
		if rt.(*types.Tuple).Len() == 1 {
			rt = rt.(*types.Tuple).At(0).Type()
		}
	}
	var args []Val
	var recv Val
	if c.IsInvoke() {
		recv = g.value(st, c.Value)
	}
	for _, a := range c.Args {
		args = append(args, g.value(st, a))
	}
	keys, static, pkgPath, name := g.calleeKeys(c)
	private := false
	if g.spec != nil {
		for _, cs := range g.spec.Callees {
			for _, k := range keys {
				if cs.Name == k && cs.Private {
					private = true
					g.trustedUsed["callee "+cs.Name+" keeps its pointer arguments private (clause `private`, read not proved)"] = true
				}
			}
		}
	}
	if !private {
		// after the call (its precondition is evaluated on the state before the hand-over)
		defer func() {
			g.publish(st, recv)
			for _, a := range args {
				g.publish(st, a)
			}
		}()
	}
	if g.monitorCall(st, c, static, keys) {
		return TupleV{}
	}

	// 1. call-site contract written in this function's spec
	if g.spec != nil {
		for _, cs := range g.spec.Callees {
			for _, k := range keys {
				if cs.Name == k {
					g.calleeUse[cs]++
					if static != nil {
						if fs := g.W.specFor(static); fs != nil {
							// the callee has its own (verified) contract: it supplies requires / ensures / frame;
							// the call-site clause adds ghost updates, extra requires, and extra *assumed* ensures
							return g.applyFuncSpecWith(st, fs, static, args, rt, cs)
						}
					}
					return g.applyCalleeSpec(st, cs, c, recv, args, rt)
				}
			}
		}
	}
	// concretisation mode: execute in-repo callees instead of summarising them (models must be real executions)
	if g.unroll > 0 && static != nil && len(static.Blocks) > 0 && g.inlineDepth < 3 && static.Pkg != nil && g.W.rootPkg[static.Pkg.Pkg.Path()] {
		var binds []Val
		if mc, ok := c.Value.(*ssa.MakeClosure); ok {
			for _, b := range mc.Bindings {
				binds = append(binds, g.value(st, b))
			}
		}
		return g.inlineCall(st, static, args, binds, rt)
	}
	// 2. contract of the static callee
	if static != nil {
		if fs := g.W.specFor(static); fs != nil {
			return g.applyFuncSpec(st, fs, static, args, rt)
		}
		inline := static.Parent() != nil && len(static.Blocks) > 0
		if !inline && g.W.isNewFunc(static) && static != g.fn && static != g.rootFn {
			inline = true
			g.note("inline", "helper "+static.Name()+" did not exist on the baseline tree: executed in place")
		}
		if g.rootSpec() != nil {
			for _, n := range splitList(g.rootSpec().Options["inline"]) {
				for _, k := range keys {
					if n == k {
						inline = true
					}
				}
			}
		}
		if inline && len(static.Blocks) > 0 {
			var binds []Val
			if mc, ok := c.Value.(*ssa.MakeClosure); ok {
				for _, b := range mc.Bindings {
					binds = append(binds, g.value(st, b))
				}
			}
			return g.inlineCall(st, static, args, binds, rt)
		}
	}
	// a closure held in a local variable: the FuncV carries the function and its bindings
	if static == nil && !c.IsInvoke() {
		if fv, ok := g.value(st, c.Value).(FuncV); ok && fv.Fn != nil && len(fv.Fn.Blocks) > 0 && fv.Fn.Parent() != nil {
			// a closure with its own contract is still executed in place when the enclosing function asks for it
			// (`option inline-closures yes`): its contract is proved separately, inlining here is merely more precise
			if fs := g.W.specFor(fv.Fn); fs == nil || (g.rootSpec() != nil && g.rootSpec().Options["inline-closures"] != "") {
				return g.inlineCall(st, fv.Fn, args, fv.Binds, rt)
			}
		}
	}
	// 3. exits
	if isExitName(name) && (pkgPath == "go.uber.org/zap" || pkgPath == "github.com/ozontech/file.d/logger" || pkgPath == "log") {
		if g.spec == nil || g.spec.Options["allow-exit"] == "" {
			g.oblige(st, "exit", "", "process exit / panic via "+name+" unreachable", "false")
		}
		st.pc = "false"
		v, _ := g.freshVal(rt, "exit")
		return v
	}
	// 4. benign
	if benignPkgs[pkgPath] || (pureFuncPkgs[pkgPath] && static != nil && static.Signature.Recv() == nil) {
		if !g.discovery {
			g.trustedUsed["benign: "+pkgPath+"."+name+" (no effect on modelled memory; result unconstrained)"] = true
		}
		v, inv := g.freshVal(rt, "r_"+name)
		g.assume(st, inv)
		g.assumeFreshResult(st, v, rt)
		return v
	}
	// 5. unknown: havoc everything
	g.note("call", "no contract for "+strings.Join(keys, " | ")+": all heaps havocked, result unconstrained")
	g.havocAll(st)
	v, inv := g.freshVal(rt, "r_"+name)
	g.assume(st, inv)
	g.assume(st, g.allocatedInv(st, v, rt))
	return v
}

// results of benign calls may be newly allocated objects; all we know is they are allocated "now".
func (g *Gen) assumeFreshResult(st *State, v Val, rt types.Type) {
	hasRef := false
	for _, l := range g.leaves(rt) {
		if l.role == "ref" {
			hasRef = true
		}
	}
	if hasRef {
		old := st.ac
		st.ac = g.fresh("ac", "Int")
		g.assume(st, "(<= "+old+" "+st.ac+")")
		g.noteAlloc()
	}
	g.assume(st, g.allocatedInv(st, v, rt))
}

func (g *Gen) havocAll(st *State) { g.havocAllExcept(st, nil) }

// preservedKey: does heap component key belong to one of the named types?
func (g *Gen) preservedKey(key string, names []string) bool {
	for _, n := range names {
		if strings.ContainsAny(n, "[") && (key == n || strings.HasPrefix(key, n+".")) {
			return true // unnamed root type given literally, e.g. []string
		}
		star := strings.HasPrefix(n, "*")
		base := strings.TrimPrefix(n, "*")
		for _, pre := range []string{g.W.modPath + "/", ""} {
			_ = pre
		}
		// key is typeKey(root) + path; typeKey uses full package paths
		idx := strings.Index(key, "."+base)
		if idx < 0 {
			continue
		}
		rootEnd := idx + 1 + len(base)
		root := key[:rootEnd]
		if star != strings.HasPrefix(root, "*") {
			continue
		}
		if strings.ContainsAny(strings.TrimPrefix(root, "*"), "[]") {
			continue
		}
		if rootEnd == len(key) || key[rootEnd] == '.' || key[rootEnd] == '!' || key[rootEnd] == '[' {
			// make sure base is the type's name, not a field with that name: the root must not contain a further ".<lower>" after the package path
			pkgAndType := strings.TrimPrefix(root, "*")
			if i := strings.LastIndex(pkgAndType, "/"); i >= 0 {
				pkgAndType = pkgAndType[i+1:]
			}
			if strings.Count(pkgAndType, ".") == 1 {
				return true
			}
		}
	}
	return false
}

func (g *Gen) havocAllExcept(st *State, preserve []string) {
	if g.frameOn && !g.discovery {
		g.oblige(st, "frame", "modifies", "call with unknown effects inside a function with a modifies clause", "false")
	}
	if rs := g.rootSpec(); rs != nil && len(rs.Preserves) > 0 && !g.discovery {
		for _, want := range rs.Preserves {
			ok := false
			for _, have := range preserve {
				if have == want {
					ok = true
				}
			}
			if !ok {
				g.oblige(st, "frame", "preserves", "call may write components of "+want+", which this function promises to preserve", "false")
			}
		}
	}
	g.bumpMaps(st)
	kept := map[string]string{}
	if len(preserve) > 0 {
		// materialise the preserved components known so far, so that they keep their terms
		for k := range g.heapSorts {
			if g.preservedKey(k, preserve) {
				kept[k] = g.heapTerm(st, k, g.heapSorts[k])
			}
		}
	}
	st.heap = kept
	g.nfresh++
	st.epoch = fmt.Sprintf("c%d", g.nfresh)
	st.parents = nil
	old := st.ac
	st.ac = g.fresh("ac", "Int")
	g.assume(st, "(<= "+old+" "+st.ac+")")
	g.noteWriteAll(preserve...)
}

func (g *Gen) applyCalleeSpec(st *State, cs *CalleeSpec, c *ssa.CallCommon, recv Val, args []Val, rt types.Type) Val {
	binds := map[string]Val{}
	// for static method calls the receiver is args[0]; callee clause params name the explicit arguments
	explicit := args
	if !c.IsInvoke() {
		if sig := c.Signature(); sig.Recv() != nil && len(args) > 0 {
			recv = args[0]
			explicit = args[1:]
		}
	}
	for i, n := range cs.Params {
		if i < len(explicit) && n != "_" {
			binds[n] = explicit[i]
		}
	}
	if recv != nil {
		binds["recv"] = recv
	}
	return g.applyContract(st, contractApp{
		what: "callee " + cs.Name, binds: binds, requires: cs.Requires, ensures: cs.Ensures, sets: cs.Sets,
		mod: cs.Modifies, pure: cs.Pure, havocAll: cs.Havoc || (cs.Modifies == nil && !cs.Pure), rt: rt, resultNames: cs.Results,
		clausePrefix: "callee " + cs.Name + " ", ownNames: true, mutGhosts: cs.MutGhosts, preserves: cs.Preserves,
	})
}

func (g *Gen) applyFuncSpec(st *State, fs *FuncSpec, fn *ssa.Function, args []Val, rt types.Type) Val {
	return g.applyFuncSpecWith(st, fs, fn, args, rt, nil)
}

func (g *Gen) applyFuncSpecWith(st *State, fs *FuncSpec, fn *ssa.Function, args []Val, rt types.Type, extra *CalleeSpec) Val {
	binds := map[string]Val{}
	var pnames []string
	if r := fn.Signature.Recv(); r != nil {
		pnames = append(pnames, r.Name())
	}
	for i := 0; i < fn.Signature.Params().Len(); i++ {
		pnames = append(pnames, fn.Signature.Params().At(i).Name())
	}
	for i, n := range pnames {
		if fs.ParamsOv != nil && i < len(fs.ParamsOv) {
			n = fs.ParamsOv[i]
		}
		if i < len(args) && n != "_" && n != "" {
			binds[n] = args[i]
		}
	}
	var rn []string
	if fs.ResultsOv != nil {
		rn = fs.ResultsOv
	} else {
		res := fn.Signature.Results()
		for i := 0; i < res.Len(); i++ {
			rn = append(rn, res.At(i).Name())
		}
	}
	if fs.Trusted && !g.discovery {
		g.trustedUsed["lib contract: "+fs.Name] = true
	}
	// logical / ghost variables of the callee
	var mut []string
	internal := map[string]bool{}
	for _, gd := range fs.Ghosts {
		var bexpr Expr
		if g.spec != nil {
			for _, k := range []string{fn.Name(), fs.Name} {
				if m, ok := g.spec.Binds[k]; ok {
					if e, ok := m[gd.Name]; ok {
						bexpr = e
					}
				}
			}
		}
		if bexpr != nil {
			binds[gd.Name] = g.evalSpec(&specCtx{g: g, st: st, old: st, binds: binds, oldIsPre: true}, bexpr)
			continue
		}
		if gd.Init != nil {
			internal[gd.Name] = true // bookkeeping ghost of the callee: invisible to callers
			continue
		}
		if _, ok := st.ghosts[gd.Name]; !ok {
			g.unsupported("call of " + fs.Name + ": callee ghost " + gd.Name + " is neither bound (bind) nor a ghost of the caller")
		}
	}
	for _, m := range fs.MutGhosts {
		if _, ok := st.ghosts[m]; ok {
			mut = append(mut, m)
		}
	}
	pure := fs.Pure
	havoc := false
	if fs.Modifies == nil && !pure {
		if fs.Trusted {
			pure = true // lib contracts without a modifies clause describe non-mutating functions
		} else {
			havoc = true
		}
	}
	ens := fs.Ensures
	if len(internal) > 0 || len(g.W.noAssume) > 0 {
		ens = nil
		ckey := strings.TrimPrefix(fs.Pkg, g.W.modPath+"/") + "::" + fn.RelString(fn.Pkg.Pkg) + " :: "
		for _, c := range fs.Ensures {
			if g.W.noAssume[ckey+c.ID] {
				continue // an open finding: this postcondition is known to be false on the pinned tree
			}
			if !mentions(c.E, internal) {
				ens = append(ens, c)
			}
		}
	}
	// lock hand-over declared by the callee: applied after its precondition was checked and before its
	// postcondition is assumed (the postcondition speaks about the state after the hand-over)
	var handover func()
	{
		lctx := &specCtx{g: g, st: st, old: st, binds: binds, calleeOnly: true}
		var rel, acq []string
		for _, e := range fs.Releases {
			rel = append(rel, g.heldKeyOfExpr(lctx, e))
		}
		for _, e := range fs.Acquires {
			acq = append(acq, g.heldKeyOfExpr(lctx, e))
		}
		handover = func() {
			for _, k := range rel {
				st.held[k] = "false"
			}
			for _, k := range acq {
				st.held[k] = "true"
			}
		}
	}
	for _, e := range fs.Releases {
		lctx := &specCtx{g: g, st: st, old: st, binds: binds, calleeOnly: true}
		g.oblige(st, "lock", "call "+fs.Name+" releases", "call "+fs.Name+": the lock it releases is held", g.heldTerm(st, g.heldKeyOfExpr(lctx, e)))
	}
	app := contractApp{
		pkg:  fn.Pkg,
		what: "call " + fs.Name, binds: binds, requires: fs.Requires, ensures: ens, mod: fs.Modifies, pure: pure, havocAll: havoc,
		rt: rt, resultNames: rn, clausePrefix: "call " + fs.Name + " ", calleeGhosts: fs.Ghosts, mutGhosts: mut, preserves: fs.Preserves,
		handover: handover,
	}
	if extra != nil && fs.Modifies == nil && !fs.Pure && len(fs.Preserves) == 0 && (extra.Pure || extra.Modifies != nil || len(extra.Preserves) > 0) {
		// the callee's own contract says nothing about its frame: the call-site clause's frame is used (an assumption, listed)
		app.pure, app.mod, app.preserves = extra.Pure, extra.Modifies, extra.Preserves
		app.havocAll = !extra.Pure && extra.Modifies == nil
		if !g.discovery {
			g.trustedUsed["frame of "+fs.Name+" assumed at a call site (its own contract has none)"] = true
		}
	}
	if extra != nil {
		// positional names of the clause are additional aliases for the explicit arguments
		explicit := args
		if fn.Signature.Recv() != nil && len(args) > 0 {
			explicit = args[1:]
		}
		xb := map[string]Val{}
		for i, n := range extra.Params {
			if i < len(explicit) && n != "_" {
				xb[n] = explicit[i]
			}
		}
		if fn.Signature.Recv() != nil && len(args) > 0 {
			xb["recv"] = args[0]
		}
		app.xbinds = xb
		app.extra = extra
		if len(extra.Ensures) > 0 && !g.discovery {
			for _, c := range extra.Ensures {
				g.trustedUsed["assumed at call site of "+fs.Name+" (beyond its verified contract): "+c.Src] = true
			}
		}
	}
	return g.applyContract(st, app)
}

type contractApp struct {
	handover     func() // lock hand-over, applied between the precondition and the postcondition
	what         string
	binds        map[string]Val
	requires     []*Clause
	ensures      []*Clause
	sets         []*SetClause
	mod          *ModClause
	pure         bool
	havocAll     bool
	rt           types.Type
	resultNames  []string
	clausePrefix string
	ownNames     bool // callee clause inside this function's spec: caller's locals are visible
	calleeGhosts []*GhostDecl
	mutGhosts    []string
	preserves    []string
	pkg          *ssa.Package
	xbinds       map[string]Val // names of the call-site clause (the callee's formals are not visible to it)
	extra        *CalleeSpec    // call-site additions on top of a function contract (mixed naming context)
}

// callVacuity: a contract applied at a call site adds assumptions (the callee's postcondition, call-site ensures,
// type facts of results).  If they contradict the state, everything after the call would be "proved" vacuously.
// Two reachability checks are recorded, before and after the call; the driver reports the call when the point
// before it is reachable and the point after it is not.
func (g *Gen) callVacuity(st *State, what, when string, pre *Obligation) *Obligation {
	if g.discovery || g.unroll > 0 || st.pc == "false" {
		return nil
	}
	fnName := g.rootFn.RelString(g.rootFn.Pkg.Pkg)
	pos := g.posStr(g.curPos)
	site := fmt.Sprintf("%s/vacuity-call-%s@%s", fnName, when, pos)
	g.oblCount[site]++
	o := &Obligation{Name: fmt.Sprintf("%s#%d", site, g.oblCount[site]), Clause: fnName + " :: vacuity:call", Kind: "vacuity", Pos: pos, Src: g.W.sourceLine(g.curPos),
		Func: fnName, Desc: "reachable " + when + " " + what, prefix: len(g.lines), pc: st.pc, goal: "false", Vacuity: true}
	if pre != nil {
		o.VacPre = pre.Name
	}
	g.obls = append(g.obls, o)
	return o
}

func (g *Gen) applyContract(st *State, a contractApp) Val {
	if len(a.ensures) > 0 || (a.extra != nil && len(a.extra.Ensures) > 0) {
		preOb := g.callVacuity(st, a.what, "before", nil)
		defer func() {
			if preOb != nil {
				g.callVacuity(st, a.what, "after", preOb)
			}
		}()
	}
	pre := st.clone()
	ctx := &specCtx{g: g, st: st, old: pre, binds: a.binds, calleeOnly: !a.ownNames, pkg: a.pkg}
	if a.ownNames {
		ctx.oldIsPre = true
	}
	for _, c := range a.requires {
		// an oracle that names a local the changed code no longer has is contract drift (reported, dropped for this run),
		// not a reason to give up the whole function: the other clauses of the call are still checked
		goal, okc := g.evalGoalOrDrift(ctx, c, a.what+" precondition")
		if !okc {
			continue
		}
		g.oblige(st, "requires", a.clausePrefix+c.ID, a.what+": precondition "+c.Src, goal)
	}
	// effects
	var items []frameItem
	if a.mod != nil {
		for _, it := range a.mod.Items {
			items = append(items, g.frameItems(&specCtx{g: g, st: pre, old: pre, binds: a.binds, calleeOnly: !a.ownNames}, it)...)
		}
	}
	switch {
	case a.pure:
	case a.mod != nil:
		for _, it := range items {
			g.havocItem(st, it)
		}
		old := st.ac
		st.ac = g.fresh("ac", "Int")
		g.assume(st, "(<= "+old+" "+st.ac+")")
		g.noteAlloc()
	case a.havocAll:
		g.havocAllExcept(st, a.preserves)
	}
	for _, m := range a.mutGhosts {
		st.ghosts[m] = g.havocGhost(m, st.ghosts[m])
		g.noteGhostWrite(m)
	}
	// results
	var res Val
	var results []Val
	if a.rt != nil {
		v, inv := g.freshVal(a.rt, "r")
		g.assume(st, inv)
		if !a.pure {
			g.assume(st, g.allocatedInv(st, v, a.rt))
		} else {
			g.assumeFreshResult(st, v, a.rt)
		}
		res = v
		if tv, ok := v.(TupleV); ok {
			results = tv.E
		} else if tt, ok := a.rt.(*types.Tuple); !ok || tt.Len() > 0 {
			results = []Val{v}
		}
	}
	if a.extra != nil {
		xctx := &specCtx{g: g, st: pre, old: pre, binds: a.xbinds, oldIsPre: true}
		for _, c := range a.extra.Requires {
			// checked in the pre-state; reported at the call
			goal, okc := g.evalGoalOrDrift(xctx, c, a.what+" call-site precondition")
			if !okc {
				continue
			}
			g.oblige(st, "requires", "callee "+a.extra.Name+" "+c.ID, a.what+": call-site precondition "+c.Src, goal)
		}
		a.sets = a.extra.Sets
		a.ownNames = true
	}
	xNames := a.resultNames
	if a.extra != nil && len(a.extra.Results) > 0 {
		xNames = a.extra.Results
	}
	// ghost updates (evaluated in the pre-state, results visible)
	if len(a.sets) > 0 {
		sb := a.binds
		if a.extra != nil {
			sb = a.xbinds
		}
		sctx := &specCtx{g: g, st: pre, old: pre, binds: sb, results: results, resultNames: xNames, calleeOnly: !a.ownNames, oldIsPre: true}
		newVals := map[string]Val{}
		for _, s := range a.sets {
			newVals[s.Name] = g.evalSpec(sctx, s.E)
		}
		for n, v := range newVals {
			if _, ok := st.ghosts[n]; !ok {
				g.unsupported("set of undeclared ghost " + n)
			}
			st.ghosts[n] = v
			g.noteGhostWrite(n)
		}
	}
	if a.handover != nil {
		a.handover()
	}
	ectx := &specCtx{g: g, st: st, old: pre, binds: a.binds, results: results, resultNames: a.resultNames, calleeOnly: !a.ownNames || a.extra != nil, oldIsPre: true, pkg: a.pkg}
	for _, c := range a.ensures {
		// a postcondition that mentions locals of the callee (checked inside the callee only) cannot be used at a
		// call site: it is left out there, which is sound (one assumption fewer) and noted
		func() {
			defer func() {
				if r := recover(); r != nil {
					if u, ok := r.(unsupportedErr); ok && strings.Contains(u.msg, "in callee contract") {
						g.note("call", "postcondition of "+a.what+" not used at this call site (it mentions the callee's locals): "+c.Src)
						return
					}
					panic(r)
				}
			}()
			g.assume(st, g.evalAssume(ectx, c.E))
		}()
	}
	if a.extra != nil {
		xe := &specCtx{g: g, st: st, old: pre, binds: a.xbinds, results: results, resultNames: xNames, oldIsPre: true}
		for _, c := range a.extra.Ensures {
			g.assume(st, g.evalAssume(xe, c.E))
		}
	}
	if res == nil {
		return TupleV{}
	}
	return res
}

func (g *Gen) noteGhostWrite(n string) {
	for _, b := range g.logBlocks() {
		m := g.ghostLog[b]
		if m == nil {
			m = map[string]bool{}
			g.ghostLog[b] = m
		}
		m[n] = true
	}
}

// frameItems turns a modifies item into heap locations.
func (g *Gen) frameItems(ctx *specCtx, e Expr) []frameItem {
	var loc Val
	switch x := e.(type) {
	case *EUnary:
		if x.Op == "*" {
			loc = g.evalSpec(ctx, x.X)
		}
	case *ESel:
		if l, ok := g.evalLoc(ctx, x); ok {
			loc = l
		}
	case *EIndex:
		base := g.evalSpec(ctx, x.X)
		if s, ok := base.(SliceV); ok {
			i := g.evalSpec(ctx, x.I).(IntV).T
			loc = PtrV{RootKey: typeKey(s.Elem), Ref: s.Ref, Idx: g.elemIdx(s.Off, i), Elem: s.Elem}
		}
	}
	if loc == nil {
		loc = g.evalSpec(ctx, e)
	}
	switch l := loc.(type) {
	case SliceV:
		var out []frameItem
		for _, lf := range g.leaves(l.Elem) {
			out = append(out, frameItem{keyPrefix: heapKey(typeKey(l.Elem), nil, lf.suffix), exact: true, ref: l.Ref, lo: l.Off, hi: "(+ " + l.Off + " " + l.Len + ")"})
		}
		return out
	case PtrV:
		if l.Cell != nil {
			return nil
		}
		var out []frameItem
		for _, lf := range g.leaves(l.Elem) {
			out = append(out, frameItem{keyPrefix: heapKey(l.RootKey, l.Steps, lf.suffix), exact: true, ref: l.Ref, idx: l.Idx})
		}
		return out
	}
	g.unsupported("modifies item " + exprString(e) + " is not a location")
	return nil
}

func (g *Gen) havocItem(st *State, it frameItem) {
	key := it.keyPrefix
	sort, ok := g.heapSorts[key]
	if !ok {
		// never used at any sort yet: nothing known about it, but give it a sort lazily when first used
		g.nfresh++
		delete(st.heap, key)
		return
	}
	h := g.heapTerm(st, key, sort)
	g.checkFrameItem(st, it)
	inner := sort[len("(Array Int ") : len(sort)-1]
	if it.idx == "" {
		if it.lo != "" {
			// only [lo,hi) of the block changes
			nb := g.fresh("blk", inner)
			g.emit(fmt.Sprintf("(assert (forall ((i Int)) (! (=> (not (and (<= %s i) (< i %s))) (= (select %s i) (select (select %s %s) i))) :pattern ((select %s i)))))", it.lo, it.hi, nb, h, it.ref, nb))
			g.setHeap(st, key, sort, "(store "+h+" "+it.ref+" "+nb+")")
			return
		}
		g.setHeap(st, key, sort, "(store "+h+" "+it.ref+" "+g.fresh("blk", inner)+")")
		return
	}
	inner2 := inner[len("(Array Int ") : len(inner)-1]
	g.setHeap(st, key, sort, nestStore(h, []string{it.ref, it.idx}, g.fresh("cellv", inner2)))
}

// checkFrame: a write to (key, ref, idx) must be permitted by the function's modifies clause.
func (g *Gen) checkFrame(st *State, key, ref, idx string) {
	if rs := g.rootSpec(); rs != nil && len(rs.Preserves) > 0 && !g.discovery && g.entry != nil && g.preservedKey(key, rs.Preserves) {
		g.oblige(st, "frame", "preserves", "write to "+key+" of a pre-existing object, which this function promises to preserve", "(>= "+ref+" "+g.entry.ac+")")
	}
	if !g.frameOn || g.discovery || g.entry == nil {
		return
	}
	alts := []string{"(>= " + ref + " " + g.entry.ac + ")"}
	for _, f := range g.frame {
		if f.keyPrefix != key {
			continue
		}
		c := eq(ref, f.ref)
		if f.idx != "" {
			c = and(c, eq(idx, f.idx))
		}
		if f.lo != "" {
			c = and(c, "(<= "+f.lo+" "+idx+")", "(< "+idx+" "+f.hi+")")
		}
		alts = append(alts, c)
	}
	g.oblige(st, "frame", "modifies", "write to "+key+" permitted by the modifies clause", or(alts...))
}

func (g *Gen) checkFrameItem(st *State, it frameItem) {
	if !g.frameOn || g.discovery || g.entry == nil {
		return
	}
	alts := []string{"(>= " + it.ref + " " + g.entry.ac + ")"}
	for _, f := range g.frame {
		if f.keyPrefix != it.keyPrefix {
			continue
		}
		c := eq(it.ref, f.ref)
		if f.idx != "" {
			if it.idx == "" {
				continue
			}
			c = and(c, eq(it.idx, f.idx))
		}
		if f.lo != "" {
			if it.lo != "" {
				c = and(c, "(<= "+f.lo+" "+it.lo+")", "(<= "+it.hi+" "+f.hi+")")
			} else if it.idx != "" {
				c = and(c, "(<= "+f.lo+" "+it.idx+")", "(< "+it.idx+" "+f.hi+")")
			} else {
				continue
			}
		}
		alts = append(alts, c)
	}
	g.oblige(st, "frame", "modifies", "callee may write "+it.keyPrefix+": permitted by the modifies clause", or(alts...))
}

// ---------- builtins ----------

func (g *Gen) builtin(st *State, b *ssa.Builtin, c *ssa.CallCommon, rt types.Type) Val {
	var args []Val
	for _, a := range c.Args {
		args = append(args, g.value(st, a))
	}
	switch b.Name() {
	case "len":
		switch x := args[0].(type) {
		case SliceV:
			return IntV{x.Len}
		case StrV:
			return IntV{x.Len}
		case PtrV:
			if arr, ok := x.Elem.Underlying().(*types.Array); ok {
				return IntV{fmt.Sprint(arr.Len())}
			}
		case ArrV:
			return IntV{fmt.Sprint(x.N)}
		case RefV:
			if _, isMap := x.Typ.Underlying().(*types.Map); isMap {
				return IntV{g.mapLen(st, x.T)}
			}
		}
		n := g.fresh("len", "Int")
		g.assume(st, "(<= 0 "+n+")")
		return IntV{n}
	case "cap":
		switch x := args[0].(type) {
		case SliceV:
			return IntV{x.Cap}
		case PtrV:
			if arr, ok := x.Elem.Underlying().(*types.Array); ok {
				return IntV{fmt.Sprint(arr.Len())}
			}
		case ArrV:
			return IntV{fmt.Sprint(x.N)}
		}
		n := g.fresh("cap", "Int")
		g.assume(st, "(<= 0 "+n+")")
		return IntV{n}
	case "append":
		// an owned scratch slice (see owned.go) cannot share its block with a slice read from anywhere else
		if g.ownedOf(g.fn)[c.Args[0]] && !g.ownedOf(g.fn)[c.Args[1]] {
			if src, ok := args[1].(SliceV); ok {
				// (a nil / empty-capacity slice has no block to share; nothing is written in place then)
				g.assume(st, "(or (<= "+args[0].(SliceV).Cap+" 0) (not (= "+args[0].(SliceV).Ref+" "+src.Ref+")))")
				g.trustedUsed["ownership: a slice this function allocated and never handed out does not alias memory read from elsewhere (static escape check, owned.go)"] = true
			}
		}
		return g.appendOp(st, args[0].(SliceV), args[1])
	case "copy":
		return g.copyOp(st, args[0].(SliceV), args[1])
	case "min", "max":
		cur := args[0].(IntV).T
		for _, a := range args[1:] {
			o := a.(IntV).T
			if b.Name() == "min" {
				cur = ite(g.ple(cur, o), cur, o)
			} else {
				cur = ite(g.ple(cur, o), o, cur)
			}
		}
		return IntV{cur}
	case "delete":
		g.note("map", "delete on map not modelled")
		g.bumpMaps(st)
		// oracle / ghost clause on the deletion:  callee mapdelete:<name>(k)
		if g.spec != nil && len(c.Args) == 2 {
			name := "mapdelete:" + g.describeValue(c.Args[0])
			for _, cs := range g.spec.Callees {
				if cs.Name != name {
					continue
				}
				g.calleeUse[cs]++
				binds := map[string]Val{}
				if len(cs.Params) > 0 {
					binds[cs.Params[0]] = args[1]
				}
				g.applyContract(st, contractApp{what: "callee " + cs.Name, binds: binds, requires: cs.Requires, sets: cs.Sets, pure: true, rt: types.NewTuple(),
					clausePrefix: "callee " + cs.Name + " ", ownNames: true, mutGhosts: cs.MutGhosts})
			}
		}
		return TupleV{}
	case "clear":
		if sv, ok := args[0].(SliceV); ok {
			// zero the elements [off, off+len) of the block
			for _, lf := range g.leaves(sv.Elem) {
				key := heapKey(typeKey(sv.Elem), nil, lf.suffix)
				sort := nestSort(2, lf.sort)
				h := g.heapTerm(st, key, sort)
				nb := g.fresh("blk", "(Array Int "+lf.sort+")")
				body := fmt.Sprintf("(= (select %s i) (ite (and (<= %s i) (< i (+ %s %s))) %s (select (select %s %s) i)))", nb, sv.Off, sv.Off, sv.Len, zeroOfSort(g, lf.sort), h, sv.Ref)
				g.emit(fmt.Sprintf("(assert (forall ((i Int)) (! %s :pattern ((select %s i)))))", body, nb))
				if g.frameOn && !g.discovery {
					g.checkFrameRange(st, key, sv.Ref, sv.Off, "(+ "+sv.Off+" "+sv.Len+")", "(< 0 "+sv.Len+")")
				}
				g.setHeap(st, key, sort, "(store "+h+" "+sv.Ref+" "+nb+")")
			}
			return TupleV{}
		}
		g.note("builtin", "clear of a map not modelled: heaps havocked")
		g.havocAll(st)
		return TupleV{}
	case "print", "println", "close":
		return TupleV{}
	case "recover":
		return IfaceV{Tag: "0", Pay: "0"}
	case "ssa:wrapnilchk":
		return args[0]
	case "ssa:deferstack":
		return PtrV{RootKey: "deferstack", Ref: "1", Idx: "0", Elem: types.Typ[types.Int]}
	}
	g.unsupported("builtin " + b.Name())
	return nil
}

func (g *Gen) elemScalar(t types.Type) bool {
	l := g.leaves(t)
	return len(l) == 1 && l[0].suffix == ""
}

// appendOp: exact Go semantics: in place when it fits, otherwise a fresh block.
func (g *Gen) ownedOf(fn *ssa.Function) map[ssa.Value]bool {
	if g.ownedCache == nil {
		g.ownedCache = map[*ssa.Function]map[ssa.Value]bool{}
	}
	if m, ok := g.ownedCache[fn]; ok {
		return m
	}
	m := ownedSliceValues(fn)
	g.ownedCache[fn] = m
	return m
}

func (g *Gen) appendOp(st *State, s SliceV, y Val) Val {
	var k string
	switch t := y.(type) {
	case SliceV:
		k = t.Len
	case StrV:
		k = t.Len
	default:
		g.unsupported("append of non-slice")
	}
	inplace := g.defBool("inplace", "(<= (+ "+s.Len+" "+k+") "+s.Cap+")")
	newRef := st.ac
	g.bumpAlloc(st)
	ncap := g.fresh("ncap", "Int")
	g.emit("(assert (>= " + ncap + " (+ " + s.Len + " " + k + ")))")
	res := SliceV{Ref: ite(inplace, s.Ref, newRef), Off: ite(inplace, s.Off, "0"), Len: "(+ " + s.Len + " " + k + ")", Cap: ite(inplace, s.Cap, ncap), Elem: s.Elem}
	// appending nothing to nil stays nil-ish; Go returns s itself when k == 0 and it fits (always fits) - covered by inplace.
	for _, lf := range g.leaves(s.Elem) {
		key := heapKey(typeKey(s.Elem), nil, lf.suffix)
		sort := nestSort(2, lf.sort)
		h := g.heapTerm(st, key, sort)
		inner := "(Array Int " + lf.sort + ")"
		nb := g.fresh("blk", inner)
		var srcAt string // element (i - dstStart) of y
		dstStart := ite(inplace, "(+ "+s.Off+" "+s.Len+")", s.Len)
		switch t := y.(type) {
		case SliceV:
			srcAt = "(select (select " + h + " " + t.Ref + ") (+ " + t.Off + " (- i " + dstStart + ")))"
		case StrV:
			srcAt = "(select " + t.Arr + " (+ " + t.Off + " (- i " + dstStart + ")))"
		}
		oldAt := ite(inplace, "(select (select "+h+" "+s.Ref+") i)", "(select (select "+h+" "+s.Ref+") (+ "+s.Off+" i))")
		// in place: block keeps everything outside [off+len, off+len+k); fresh: [0,len) copy of s, [len,len+k) = y
		body := fmt.Sprintf("(= (select %s i) (ite (and (<= %s i) (< i (+ %s %s))) %s %s))", nb, dstStart, dstStart, k, srcAt, oldAt)
		g.emit(fmt.Sprintf("(assert (forall ((i Int)) (! %s :pattern ((select %s i)))))", body, nb))
		// frame: an in-place append writes the caller-visible block
		if g.frameOn && !g.discovery {
			g.checkFrameRange(st, key, s.Ref, "(+ "+s.Off+" "+s.Len+")", "(+ "+s.Off+" "+s.Len+" "+k+")", and(inplace, "(< 0 "+k+")"))
		}
		g.setHeap(st, key, sort, "(store "+h+" "+res.Ref+" "+nb+")")
	}
	return res
}

func (g *Gen) checkFrameRange(st *State, key, ref, lo, hi, cond string) {
	alts := []string{"(>= " + ref + " " + g.entry.ac + ")", not(cond)}
	for _, f := range g.frame {
		if f.keyPrefix != key {
			continue
		}
		c := eq(ref, f.ref)
		if f.idx != "" {
			c = and(c, eq(lo, f.idx), eq(hi, "(+ "+f.idx+" 1)"))
		}
		if f.lo != "" {
			c = and(c, "(<= "+f.lo+" "+lo+")", "(<= "+hi+" "+f.hi+")")
		}
		alts = append(alts, c)
	}
	g.oblige(st, "frame", "modifies", "range write to "+key+" permitted by the modifies clause", or(alts...))
}

func (g *Gen) copyOp(st *State, d SliceV, y Val) Val {
	var sl string
	switch t := y.(type) {
	case SliceV:
		sl = t.Len
	case StrV:
		sl = t.Len
	}
	n := g.fresh("ncopy", "Int")
	g.emit("(assert (= " + n + " " + ite("(<= "+d.Len+" "+sl+")", d.Len, sl) + "))")
	for _, lf := range g.leaves(d.Elem) {
		key := heapKey(typeKey(d.Elem), nil, lf.suffix)
		sort := nestSort(2, lf.sort)
		h := g.heapTerm(st, key, sort)
		inner := "(Array Int " + lf.sort + ")"
		nb := g.fresh("blk", inner)
		var srcAt string
		switch t := y.(type) {
		case SliceV:
			srcAt = "(select (select " + h + " " + t.Ref + ") (+ " + t.Off + " (- i " + d.Off + ")))"
		case StrV:
			srcAt = "(select " + t.Arr + " (+ " + t.Off + " (- i " + d.Off + ")))"
		}
		body := fmt.Sprintf("(= (select %s i) (ite (and (<= %s i) (< i (+ %s %s))) %s (select (select %s %s) i)))", nb, d.Off, d.Off, n, srcAt, h, d.Ref)
		g.emit(fmt.Sprintf("(assert (forall ((i Int)) (! %s :pattern ((select %s i)))))", body, nb))
		if g.frameOn && !g.discovery {
			g.checkFrameRange(st, key, d.Ref, d.Off, "(+ "+d.Off+" "+n+")", "(< 0 "+n+")")
		}
		g.setHeap(st, key, sort, "(store "+h+" "+d.Ref+" "+nb+")")
	}
	return IntV{n}
}

func sortedKeys(m map[string]bool) []string {
	var out []string
	for k := range m {
		out = append(out, k)
	}
	sort.Strings(out)
	return out
}

func (g *Gen) rootSpec() *FuncSpec { return g.W.specFor(g.rootFn) }

// mentions reports whether expression e uses one of the given identifiers.
func mentions(e Expr, names map[string]bool) bool {
	switch x := e.(type) {
	case *EIdent:
		return names[x.Name]
	case *EUnary:
		return mentions(x.X, names)
	case *EBin:
		return mentions(x.L, names) || mentions(x.R, names)
	case *EIndex:
		return mentions(x.X, names) || mentions(x.I, names)
	case *ESlice:
		return mentions(x.X, names) || (x.Lo != nil && mentions(x.Lo, names)) || (x.Hi != nil && mentions(x.Hi, names))
	case *ESel:
		return mentions(x.X, names)
	case *ECall:
		for _, a := range x.Args {
			if mentions(a, names) {
				return true
			}
		}
	case *EQuant:
		return mentions(x.Body, names)
	}
	return false
}

// evalLoc evaluates an lvalue expression (x.f, x.f.g, *p) to the heap location it denotes.
func (g *Gen) evalLoc(ctx *specCtx, e Expr) (PtrV, bool) {
	switch x := e.(type) {
	case *ESel:
		var base PtrV
		found := false
		if inner, ok := x.X.(*ESel); ok {
			if l, ok := g.evalLoc(ctx, inner); ok {
				if _, isPtr := l.Elem.Underlying().(*types.Pointer); isPtr {
					// field of pointer type: follow the pointer
					if pv, ok := g.loadHeap(ctx.st, l).(PtrV); ok {
						base, found = pv, true
					}
				} else {
					base, found = l, true
				}
			}
		}
		if !found {
			v := g.evalSpec(ctx, x.X)
			pv, ok := v.(PtrV)
			if !ok || pv.Cell != nil {
				return PtrV{}, false
			}
			base = pv
		}
		if emb := promotedVia(base.Elem, x.F); emb != "" {
			return g.evalLoc(ctx, &ESel{X: &ESel{X: x.X, F: emb}, F: x.F})
		}
		i, ft, ok := structFieldIndex(base.Elem, x.F)
		if !ok {
			return PtrV{}, false
		}
		np := base
		np.Steps = append(append([]pstep(nil), base.Steps...), pstep{Field: i, Name: x.F})
		np.Elem = ft
		return np, true
	case *EUnary:
		if x.Op == "*" {
			if pv, ok := g.evalSpec(ctx, x.X).(PtrV); ok && pv.Cell == nil {
				return pv, true
			}
		}
	}
	return PtrV{}, false
}
