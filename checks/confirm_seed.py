#!/usr/bin/env python3
"""confirm_seed.py <PROP> <mutant-dir> <worktree> <name>
Confirms a seeded change in a scratch worktree (builds, existing tests of the touched package pass, demo fails with / passes without),
then stores it under /verif/seeded/<PROP>/<name>/ ."""
import json, os, re, shutil, subprocess, sys
prop, mdir, wt, name = sys.argv[1:5]
GR = "/root/go/pkg/mod/golang.org/toolchain@v0.0.1-go1.25.5.linux-amd64"
env = dict(os.environ, GOFLAGS="-mod=mod", GOPROXY="off", GOSUMDB="off", GOTOOLCHAIN="local", GOROOT=GR, PATH=GR + "/bin:" + os.environ["PATH"])
def run(cmd, **kw):
    p = subprocess.run(cmd, cwd=wt, env=env, capture_output=True, text=True, **kw)
    return p.returncode, (p.stdout + p.stderr)[-1500:]
meta = json.load(open(os.path.join(mdir, "meta.json")))
pkg = meta["package_dir"].strip("/").replace(wt + "/", "")
if pkg.startswith("/"):
    pkg = os.path.relpath(pkg, wt)
patch = os.path.abspath(os.path.join(mdir, "patch.diff"))
demo = os.path.join(mdir, "demo_test.go")
demo_dst = os.path.join(wt, pkg, "zz_seed_demo_test.go")
ran = []
def step(desc, cmd, expect_ok):
    rc, out = run(cmd)
    ok = (rc == 0) == expect_ok
    ran.append({"cmd": " ".join(cmd), "expect": "pass" if expect_ok else "fail", "exit": rc, "ok": ok})
    print(("OK  " if ok else "BAD ") + desc, "exit", rc)
    if not ok:
        print(out)
    return ok
run(["git", "checkout", "--", "."])
if os.path.exists(demo_dst):
    os.remove(demo_dst)
touched = sorted(set(os.path.dirname(l[6:].strip()) for l in open(patch) if l.startswith("+++ b/")))
good = True
good &= step("apply", ["git", "apply", patch], True)
good &= step("build", ["go", "build", "./..."], True)
for t in touched:
    good &= step("existing tests " + t, ["go", "test", "-vet=off", "-count=1", "-timeout", "600s", "./" + t + "/"], True)
shutil.copy(demo, demo_dst)
m = re.findall(r"func (Test\w+)\(", open(demo).read())
runpat = "^(" + "|".join(m) + ")$"
good &= step("demo fails with mutant", ["go", "test", "-vet=off", "-count=1", "-timeout", "300s", "-run", runpat, "./" + pkg + "/"], False)
run(["git", "checkout", "--", "."])
good &= step("demo passes without", ["go", "test", "-vet=off", "-count=1", "-timeout", "300s", "-run", runpat, "./" + pkg + "/"], True)
os.remove(demo_dst)
run(["git", "checkout", "--", "."])
if not good:
    print("NOT CONFIRMED"); sys.exit(1)
dst = os.path.join("/verif/seeded", prop, name)
os.makedirs(dst, exist_ok=True)
shutil.copy(patch, os.path.join(dst, "patch.diff"))
shutil.copy(demo, os.path.join(dst, "demo_test.go"))
meta2 = {"property": prop, "breaks": meta.get("summary"), "needs": meta.get("needs"), "package_dir": pkg, "demo_run": runpat,
         "confirmed_by_me": ran, "source": "independent sub-agent given only the property text and a scratch worktree"}
json.dump(meta2, open(os.path.join(dst, "meta.json"), "w"), indent=1)
print("CONFIRMED ->", dst)
