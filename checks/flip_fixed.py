#!/usr/bin/env python3
"""flip_fixed.py <canary path (as recorded)> <commit> <clause or -> <site or ->: marks an open replay-only finding as fixed,
renames its stored test (zz_open_x -> zz_x, TestVerifOpenX -> TestVerifX) and prints the props.py canary tuple."""
import json, os, re, sys
canary, commit, clause, site = sys.argv[1:5]
K = "/verif/known_findings.json"
k = json.load(open(K))
for f in k["findings"]:
    if f.get("canary") == canary and f.get("status") == "open":
        new = canary.replace("zz_open_", "zz_")
        src = open("/verif/" + canary).read()
        test = f["test"]
        ntest = test.replace("TestVerifOpen", "TestVerif")
        open("/verif/" + new, "w").write(src.replace(test, ntest))
        os.remove("/verif/" + canary)
        f["status"] = "fixed"; f["commit"] = commit; f["canary"] = new; f["test"] = ntest
        f.pop("kind", None); f.pop("why_not_fixed", None)
        if clause != "-":
            f["clause"] = clause
        if site != "-":
            f["site"] = site
        print('("%s", "%s", "%s")' % (f["pkg"], new, ntest))
        break
else:
    sys.exit("no such open finding: " + canary)
json.dump(k, open(K, "w"), indent=1, ensure_ascii=False)
