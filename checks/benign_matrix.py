#!/usr/bin/env python3
"""benign_matrix.py [ID ...] [ID/bK ...]: false-alarm corpus.  Every change under /verif/benign/<ID>/<bK>/patch.diff is a
behaviour-preserving rewrite (written by an independent sub-agent that saw only the property text) of functions the property
depends on.  Each is applied to a scratch worktree of /repo, built, the touched packages' tests are run, and the registered quick
checks covering the touched packages (plus the change's own property) are run against that worktree.  A VIOLATION line is a FALSE
ALARM of the machinery.  Writes /verif/benign/MATRIX.json."""
import json, os, subprocess, sys, threading, queue
HERE = os.path.dirname(os.path.abspath(__file__))
sys.path.insert(0, HERE)
from props import PROPS
BEN = "/verif/benign"
MPATH = os.path.join(BEN, "MATRIX.json")
only = set(a for a in sys.argv[1:] if "/" not in a)
only_seeds = set(a for a in sys.argv[1:] if "/" in a)
res = {}
if os.path.exists(MPATH) and (only or only_seeds):
    res = json.load(open(MPATH))
lock = threading.Lock()
GR = "/root/go/pkg/mod/golang.org/toolchain@v0.0.1-go1.25.5.linux-amd64"
genv = dict(os.environ, GOFLAGS="-mod=mod", GOPROXY="off", GOSUMDB="off", GOTOOLCHAIN="local", GOROOT=GR, PATH=GR + "/bin:" + os.environ["PATH"])
SKIP_TESTS = bool(os.environ.get("VERIF_BENIGN_SKIP_TESTS"))


def checks_for(pid, patch):
    dirs = set(os.path.dirname(l[6:].strip()) for l in open(patch) if l.startswith("+++ b/"))
    out = {pid}
    for chk, P in PROPS.items():
        for pkgs, _ in P["groups"]:
            for pk in pkgs:
                if pk.lstrip("./") in dirs:
                    out.add(chk)
    return sorted(out), sorted(dirs)


def worker(wid, q):
    wt = "/tmp/wt_benign%d" % wid
    subprocess.run(["git", "-C", "/repo", "worktree", "remove", "--force", wt], capture_output=True)
    subprocess.run(["git", "-C", "/repo", "worktree", "add", "-q", "--detach", wt, "HEAD"], check=True)
    env = dict(os.environ, VERIF_REPO=wt, VERIF_EVIDENCE_DIR="/tmp/benign_evidence%d" % wid, VERIF_OUT_DIR="/tmp/benign_out%d" % wid)
    try:
        while True:
            try:
                pid, m, patch = q.get_nowait()
            except queue.Empty:
                return
            subprocess.run(["git", "-C", wt, "checkout", "--", "."], check=True)
            subprocess.run(["git", "-C", wt, "clean", "-fdq"], check=True)
            a = subprocess.run(["git", "-C", wt, "apply", "--3way", patch], capture_output=True, text=True)
            if a.returncode != 0:
                subprocess.run(["git", "-C", wt, "reset", "-q", "--hard"], capture_output=True)
                with lock:
                    res[pid + "/" + m] = {"error": "patch does not apply: " + a.stderr.strip()[-160:]}
                continue
            subprocess.run(["git", "-C", wt, "reset", "-q"], capture_output=True)
            ran, dirs = checks_for(pid, patch)
            entry = {"checks_run": ran}
            b = subprocess.run(["go", "build", "./..."], cwd=wt, env=genv, capture_output=True, text=True)
            if b.returncode != 0:
                entry["error"] = "does not build: " + b.stderr[-200:]
            elif not SKIP_TESTS:
                for d in dirs:
                    t = subprocess.run(["go", "test", "-vet=off", "-count=1", "-timeout", "600s", "./" + d + "/"], cwd=wt, env=genv, capture_output=True, text=True)
                    if t.returncode != 0:
                        entry["error"] = "existing tests fail in " + d + ": " + (t.stdout + t.stderr)[-300:]
            if "error" not in entry:
                alarms, und = {}, {}
                for chk in ran:
                    p = subprocess.run(["python3", os.path.join(HERE, "run.py"), chk], capture_output=True, text=True, cwd=os.path.dirname(HERE), env=env)
                    viol = [l for l in p.stdout.splitlines() if l.startswith("VIOLATION")]
                    u = [l for l in p.stdout.splitlines() if l.startswith("UNDECIDED")]
                    if p.returncode != 0 and not viol:
                        und[chk] = ["check crashed: " + (p.stderr or p.stdout)[-200:]]
                    if viol:
                        alarms[chk] = viol[:6]
                    if u:
                        und.setdefault(chk, []).extend(u[:6])
                entry["false_alarms"] = alarms
                entry["undecided_in"] = und
            with lock:
                res[pid + "/" + m] = entry
                print(pid + "/" + m, "FALSE-ALARM " + ",".join(entry.get("false_alarms", {})) if entry.get("false_alarms") else entry.get("error", "quiet"), flush=True)
    finally:
        subprocess.run(["git", "-C", "/repo", "worktree", "remove", "--force", wt], capture_output=True)
        subprocess.run(["rm", "-rf", "/tmp/benign_evidence%d" % wid, "/tmp/benign_out%d" % wid])


q = queue.Queue()
for pid in sorted(os.listdir(BEN)):
    d = os.path.join(BEN, pid)
    if not os.path.isdir(d) or (only and pid not in only and not any(s.startswith(pid + "/") for s in only_seeds)):
        continue
    for m in sorted(os.listdir(d)):
        if only_seeds and (pid + "/" + m) not in only_seeds and pid not in only:
            continue
        patch = os.path.join(d, m, "patch.diff")
        if os.path.exists(patch):
            q.put((pid, m, patch))
n = int(os.environ.get("VERIF_MATRIX_WORKERS", "3"))
ts = [threading.Thread(target=worker, args=(i, q)) for i in range(n)]
[t.start() for t in ts]
[t.join() for t in ts]
json.dump(res, open(MPATH, "w"), indent=1, sort_keys=True)
fa = [k for k, v in res.items() if v.get("false_alarms")]
print("benign changes:", len(res), "false alarms:", len(fa), fa)
