#!/bin/sh
# runs every registered check (quick tier by default) on the current tree; prints the summary line of each check and every
# line that needs attention (VIOLATION / UNDECIDED / NOTE / SELFTEST)
cd "$(dirname "$0")/.."
tier=${1:-quick}
for p in $(python3 -c "import sys; sys.path.insert(0,'checks'); from props import PROPS; print(' '.join(sorted(PROPS)))"); do
  python3 checks/run.py $p --tier $tier | grep -E "^(VIOLATION|UNDECIDED|NOTE|SELFTEST)|^C[0-9][0-9] (quick|thorough):"
done
