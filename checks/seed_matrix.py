#!/usr/bin/env python3
"""seed_matrix.py [ID ...]: for every confirmed seeded change under /verif/seeded, apply it to a scratch worktree of /repo,
run every registered quick check against that worktree and record which checks report a VIOLATION.
Writes /verif/seeded/MATRIX.json (input for the 'which check catches which change' table in DESIGN.md)."""
import json, os, subprocess, sys, shutil
sys.path.insert(0, os.path.dirname(os.path.abspath(__file__)))
from props import PROPS
WT = "/tmp/wt_matrix"
subprocess.run(["git", "-C", "/repo", "worktree", "remove", "--force", WT], capture_output=True)
subprocess.run(["git", "-C", "/repo", "worktree", "add", "-q", "--detach", WT, "HEAD"], check=True)
env = dict(os.environ, VERIF_REPO=WT, VERIF_EVIDENCE_DIR="/tmp/matrix_evidence", VERIF_OUT_DIR="/tmp/matrix_out")
only = set(sys.argv[1:])
res = {}
mpath = "/verif/seeded/MATRIX.json"
if os.path.exists(mpath):
    res = json.load(open(mpath))
try:
    for pid in sorted(os.listdir("/verif/seeded")):
        d = os.path.join("/verif/seeded", pid)
        if not os.path.isdir(d) or (only and pid not in only):
            continue
        for m in sorted(os.listdir(d)):
            patch = os.path.join(d, m, "patch.diff")
            if not os.path.exists(patch):
                continue
            subprocess.run(["git", "-C", WT, "checkout", "--", "."], check=True)
            a = subprocess.run(["git", "-C", WT, "apply", patch], capture_output=True, text=True)
            if a.returncode != 0:
                res[pid + "/" + m] = {"error": "patch does not apply to current HEAD: " + a.stderr[-200:]}
                continue
            hits = {}
            for chk in sorted(PROPS):
                p = subprocess.run(["python3", "/verif/checks/run.py", chk], capture_output=True, text=True, cwd="/verif", env=env)
                viol = [l for l in p.stdout.splitlines() if l.startswith("VIOLATION")]
                und = [l for l in p.stdout.splitlines() if l.startswith("UNDECIDED")]
                if p.returncode != 0 and not viol:
                    hits.setdefault("_undecided", {})[chk] = "check crashed: " + (p.stderr or p.stdout)[-200:]
                elif viol:
                    hits[chk] = [v.split("obligation=")[1].split(" ")[0] if "obligation=" in v else v[:80] for v in viol][:4]
                elif und:
                    hits.setdefault("_undecided", {})[chk] = len(und)
            res[pid + "/" + m] = {"detected_by": {k: v for k, v in hits.items() if k != "_undecided"}, "undecided_in": hits.get("_undecided", {}),
                                  "own_property_detects": pid in hits}
            print(pid, m, "->", [k for k in hits if k != "_undecided"] or "MISSED", flush=True)
            json.dump(res, open(mpath, "w"), indent=1, sort_keys=True)
finally:
    subprocess.run(["git", "-C", "/repo", "worktree", "remove", "--force", WT], capture_output=True)
    shutil.rmtree("/tmp/matrix_evidence", ignore_errors=True); shutil.rmtree("/tmp/matrix_out", ignore_errors=True)
