#!/usr/bin/env python3
"""seed_matrix.py [ID ...]: for every confirmed seeded change under /verif/seeded, apply it to a scratch worktree of /repo,
run the registered quick checks that cover the touched packages (plus the seed's own property) against that worktree and record
which checks report a VIOLATION.  Writes /verif/seeded/MATRIX.json (input for the 'which check catches which change' table in
DESIGN.md).  VERIF_MATRIX_ALL=1 runs every check for every seed.  Three worktrees are used in parallel."""
import json, os, subprocess, sys, shutil, threading, queue, re
HERE = os.path.dirname(os.path.abspath(__file__))
sys.path.insert(0, HERE)
from props import PROPS
SEEDED = "/verif/seeded"
MPATH = os.path.join(SEEDED, "MATRIX.json")
only = set(a for a in sys.argv[1:] if "/" not in a)
only_seeds = set(a for a in sys.argv[1:] if "/" in a)  # e.g. C02/m7: re-run single seeds, keep the rest of the matrix
res = {}
if os.path.exists(MPATH) and (only or only_seeds):
    res = json.load(open(MPATH))
lock = threading.Lock()
PREV = json.load(open(MPATH)) if os.path.exists(MPATH) else {}


def checks_for(pid, patch):
    if os.environ.get("VERIF_MATRIX_ALL"):
        return sorted(PROPS)
    dirs = set(os.path.dirname(l[6:].strip()) for l in open(patch) if l.startswith("+++ b/"))
    out = {pid}
    if os.environ.get("VERIF_MATRIX_FAST"):
        # regression mode: the seed's own property plus the checks that reported it in the previous matrix
        prev = PREV.get(pid + "/" + os.path.basename(os.path.dirname(patch)), {})
        return sorted(out | set((prev.get("detected_by") or {}).keys()))
    for chk, P in PROPS.items():
        for pkgs, _ in P["groups"]:
            for pk in pkgs:
                if pk.lstrip("./") in dirs:
                    out.add(chk)
    return sorted(out)


def worker(wid, q):
    wt = "/tmp/wt_matrix%d" % wid
    subprocess.run(["git", "-C", "/repo", "worktree", "remove", "--force", wt], capture_output=True)
    subprocess.run(["git", "-C", "/repo", "worktree", "add", "-q", "--detach", wt, "HEAD"], check=True)
    env = dict(os.environ, VERIF_REPO=wt, VERIF_EVIDENCE_DIR="/tmp/matrix_evidence%d" % wid, VERIF_OUT_DIR="/tmp/matrix_out%d" % wid)
    try:
        while True:
            try:
                pid, m, patch = q.get_nowait()
            except queue.Empty:
                return
            subprocess.run(["git", "-C", wt, "checkout", "--", "."], check=True)
            a = subprocess.run(["git", "-C", wt, "apply", "--3way", patch], capture_output=True, text=True)
            if a.returncode != 0:
                subprocess.run(["git", "-C", wt, "reset", "-q", "--hard"], capture_output=True)
                with lock:
                    res[pid + "/" + m] = {"error": "patch does not apply to current HEAD (the code it changed was repaired by a fix: commit since): " + a.stderr.strip()[-160:]}
                continue
            subprocess.run(["git", "-C", wt, "reset", "-q"], capture_output=True)  # --3way stages; keep only the working tree change
            hits, und = {}, {}
            ran = checks_for(pid, patch)
            for chk in ran:
                p = subprocess.run(["python3", os.path.join(HERE, "run.py"), chk], capture_output=True, text=True, cwd=os.path.dirname(HERE), env=env)
                viol = [l for l in p.stdout.splitlines() if l.startswith("VIOLATION")]
                u = [l for l in p.stdout.splitlines() if l.startswith("UNDECIDED")]
                if p.returncode != 0 and not viol:
                    und[chk] = "check crashed: " + (p.stderr or p.stdout)[-200:]
                elif viol:
                    hits[chk] = [(v.split("obligation=")[1].split(" ")[0] if "obligation=" in v else v[:80]) + (" [input replayed]" if "failing-input=" in v else "") for v in viol][:4]
                elif u:
                    und[chk] = len(u)
            with lock:
                res[pid + "/" + m] = {"detected_by": hits, "undecided_in": und, "own_property_detects": pid in hits, "checks_run": ran}
                print(pid, m, "->", sorted(hits) or "MISSED", flush=True)
                json.dump(res, open(MPATH, "w"), indent=1, sort_keys=True)
            subprocess.run(["git", "-C", wt, "checkout", "--", "."], check=True)
    finally:
        subprocess.run(["git", "-C", "/repo", "worktree", "remove", "--force", wt], capture_output=True)
        shutil.rmtree("/tmp/matrix_evidence%d" % wid, ignore_errors=True)
        shutil.rmtree("/tmp/matrix_out%d" % wid, ignore_errors=True)


q = queue.Queue()
for pid in sorted(os.listdir(SEEDED)):
    d = os.path.join(SEEDED, pid)
    if not os.path.isdir(d) or (only and pid not in only and not only_seeds):
        continue
    for m in sorted(os.listdir(d)):
        patch = os.path.join(d, m, "patch.diff")
        if only_seeds and (pid + "/" + m) not in only_seeds:
            continue
        if os.path.exists(patch):
            q.put((pid, m, patch))
ths = [threading.Thread(target=worker, args=(i, q)) for i in range(int(os.environ.get("VERIF_MATRIX_WORKERS", "3")))]
for t in ths:
    t.start()
for t in ths:
    t.join()
json.dump(res, open(MPATH, "w"), indent=1, sort_keys=True)
