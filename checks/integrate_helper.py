#!/usr/bin/env python3
"""integrate_helper.py <helper-out-dir> <PROP> [max_mutants] [max_benign]
Adds a contract-writing helper's must-fail mutants and behaviour-preserving rewrites to selftest/mutants.json and
selftest/benign.json (files are made relative to the repository root; duplicates are skipped; at most N of each, spread over the list)."""
import json, os, sys
out, pid = sys.argv[1], sys.argv[2]
nm = int(sys.argv[3]) if len(sys.argv) > 3 else 24
nb = int(sys.argv[4]) if len(sys.argv) > 4 else 10


def norm(m):
    f = m["file"]
    for pre in ("/repo/",):
        if f.startswith(pre):
            f = f[len(pre):]
    if f.startswith("/tmp/"):
        f = f.split("/", 3)[3]
    return {"file": f, "old": m["old"], "new": m["new"], "note": m.get("note", "")}


def spread(l, n):
    if len(l) <= n:
        return l
    step = len(l) / float(n)
    return [l[int(i * step)] for i in range(n)]


for fn, key, n in (("mutants.json", "mutants.json", nm), ("benign.json", "benign.json", nb)):
    src = os.path.join(out, fn)
    if not os.path.exists(src):
        continue
    raw = json.load(open(src))
    if isinstance(raw, dict):  # {PROP: [...]} as in selftest/mutants.json
        raw = [m for l in raw.values() for m in l]
    items = [norm(m) for m in raw]
    ok = []
    for m in items:
        p = os.path.join("/repo", m["file"])
        if os.path.exists(p) and open(p).read().count(m["old"]) >= 1 and m["old"] != m["new"]:
            ok.append(m)
    dst = os.path.join("/verif/selftest", key)
    cur = json.load(open(dst)) if os.path.exists(dst) else {}
    have = set((m["file"], m["old"], m["new"]) for m in cur.get(pid, []))
    add = [m for m in spread(ok, n) if (m["file"], m["old"], m["new"]) not in have]
    cur.setdefault(pid, []).extend(add)
    json.dump(cur, open(dst, "w"), indent=1)
    print(fn, "offered", len(items), "applicable", len(ok), "added", len(add))
