#!/usr/bin/env python3
# usage: mut1.py <pkgs> <file> <old> <new>   -- one-off textual mutant through govc's overlay
import sys,subprocess,json,tempfile,os
pkgs,f,old,new=sys.argv[1:5]
src=open(f).read()
assert src.count(old)>=1,"pattern not found"
d=tempfile.mkdtemp()
open(d+'/m.go','w').write(src.replace(old,new,1))
json.dump({f:d+'/m.go'},open(d+'/ov.json','w'))
subprocess.run(['/verif/bin/govc','-pkgs',pkgs,'-overlay',d+'/ov.json','-out',d+'/r.json']+sys.argv[5:],check=True)
subprocess.run(['python3','/verif/checks/show.py',d+'/r.json'])
