import json,sys
r=json.load(open(sys.argv[1]))
print('load ms',r['load_ms'],'solve ms',r['solve_ms'], 'missing',r['contracts_without_function'], r['spec_errors'])
for f in r['functions']:
    print(f['name'],'ERR:'+f['error'] if f.get('error') else '', 'noinv',f.get('loops_without_invariant'),'unused',f.get('unused_callee_clauses'), 'bytes',f['script_bytes'])
    for o in f['obligations'] or []:
        bad = (o['verdict']!='unsat') != bool(o.get('vacuity'))
        if bad or len(sys.argv)>2:
            print('  ','!!' if bad else '  ',o['verdict'],o['solver'],o['ms'],o['name'],'|',o['desc'][:100], o.get('smt_file',''))
    n=len(f['obligations'] or [])
    print('   obligations',n,'abstractions',f['abstractions'])
