# Reasons for properties not claimed (kept current by hand).
NOT_APPLICABLE = {}
