#!/usr/bin/env python3
"""Driver: run.py <PROP> [--tier quick|thorough] [--replay FILE] [--update-baseline]

Runs govc on /repo's working tree for the functions a property depends on,
classifies every obligation, prints VIOLATION / KNOWN-FINDING / UNDECIDED lines,
writes /verif/evidence/<PROP>.json.  Exit 1 iff a VIOLATION was printed.
"""
import argparse
import re
import json
import os
import shutil
import subprocess
import sys
import tempfile
import time

HERE = os.path.dirname(os.path.abspath(__file__))
VERIF = os.path.dirname(HERE)
sys.path.insert(0, HERE)
from props import PROPS  # noqa: E402

REPO = os.environ.get("VERIF_REPO", "/repo")
GOVC = os.path.join(VERIF, "bin", "govc")
BASELINE = os.path.join(VERIF, "baseline", "clauses.lock.json")
KNOWN = os.path.join(VERIF, "known_findings.json")
KNOWNFUNCS = os.path.join(VERIF, "baseline", "functions.json")  # package -> functions on the pinned tree (new helpers are executed in place)
LOOPSIGS = os.path.join(VERIF, "baseline", "loopsigs.json")  # pkg::func -> loop signatures on the pinned tree (loop reordering keeps contract ordinals)
GOROOT_GLOB = "/root/go/pkg/mod/golang.org/toolchain@v0.0.1-go1.25.5.linux-amd64"


def go_env():
    env = dict(os.environ)
    env.update({"GOFLAGS": "-mod=mod", "GOPROXY": "off", "GOSUMDB": "off", "GOTOOLCHAIN": "local"})
    if os.path.isdir(GOROOT_GLOB):
        env["GOROOT"] = GOROOT_GLOB
        env["PATH"] = GOROOT_GLOB + "/bin:" + env.get("PATH", "")
    return env


def ensure_govc():
    """(Re)build govc if missing or older than its sources."""
    src_dir = os.path.join(VERIF, "govc")
    newest = max(os.path.getmtime(os.path.join(src_dir, f)) for f in os.listdir(src_dir) if f.endswith(".go") or f.startswith("go."))
    if os.path.exists(GOVC) and os.path.getmtime(GOVC) >= newest:
        return
    os.makedirs(os.path.dirname(GOVC), exist_ok=True)
    subprocess.run(["go", "build", "-o", GOVC, "."], cwd=src_dir, env=go_env(), check=True)


PURE_VALUE_FUNCS = {"IndexByte", "LastIndexByte", "Index", "LastIndex", "IndexAny", "IndexRune", "IndexFunc", "Cut", "CutPrefix", "CutSuffix",
                    "HasPrefix", "HasSuffix", "Contains", "ContainsAny", "TrimSuffix", "TrimPrefix", "TrimSpace", "Trim", "TrimRight", "TrimLeft",
                    "Split", "SplitN", "Fields", "ParseInt", "ParseUint", "Atoi", "ParseFloat", "ParseBool", "RuneCount", "RuneCountInString",
                    "ToLower", "ToUpper", "EqualFold", "Equal", "Compare", "Count"}


def load_json(path, default):
    try:
        with open(path) as f:
            return json.load(f)
    except FileNotFoundError:
        return default


def clause_key(o):
    return o["clause"]


def site_key(o):
    return o["clause"] + " @ " + (o.get("src") or "")


def run_govc(pkgs, only, timeout, workdir, tag, overlay=None, extra=None):
    out = os.path.join(workdir, "res_%s.json" % tag)
    cmd = [GOVC, "-repo", REPO, "-pkgs", ",".join(pkgs), "-only", only, "-out", out, "-timeout", str(timeout), "-jobs", os.environ.get("VERIF_GOVC_JOBS", "16"),
           "-smtdir", os.path.join(workdir, "smt_" + tag)]
    if overlay:
        cmd += ["-overlay", overlay]
    if os.path.exists(LOOPSIGS):
        cmd += ["-loopsigs", LOOPSIGS]
    if os.path.exists(KNOWNFUNCS):
        cmd += ["-knownfuncs", KNOWNFUNCS]
    # postconditions that are open findings are checked but never assumed (neither behind their own return nor by callers)
    na = [k["clause"] for k in load_json(KNOWN, {"findings": []}).get("findings", []) if k.get("status") == "open" and k.get("clause")]
    if na:
        naf = os.path.join(workdir, "noassume.json")
        with open(naf, "w") as f:
            json.dump(na, f)
        cmd += ["-noassume", naf]
    if extra:
        cmd += extra
    p = subprocess.run(cmd, env=go_env(), stdout=subprocess.PIPE, stderr=subprocess.STDOUT, text=True)
    if p.returncode != 0:
        return None, p.stdout
    return load_json(out, None), p.stdout


def retry_undecided(pid, results, known, timeout):
    """An obligation that came back timeout / unknown (not sat) is given a second, much longer run on all three solvers
    before it is allowed to count as failing: a loaded machine must not turn a proof into an alarm."""
    import concurrent.futures
    todo = []
    expected = set((k["clause"], k.get("site", "")) for k in known.get("findings", []) if k["property"] == pid and k.get("status") == "open" and k.get("clause"))
    for res in results:
        for f in res["functions"]:
            for o in f.get("obligations") or []:
                if o.get("vacuity") or o.get("cover") or o["verdict"] in ("unsat", "sat"):
                    continue
                if (f["pkg"].replace("github.com/ozontech/file.d/", "") + "::" + o["clause"], o.get("src") or "") in expected:
                    continue  # open known finding: expected not to discharge
                if o.get("smt_file") and os.path.exists(o["smt_file"]):
                    todo.append(o)
    if not todo:
        return
    todo = todo[:24]

    def one(o):
        procs = []
        for name, cmd in (("z3-new", ["z3-new", "-T:%d" % timeout]), ("z3", ["z3", "-T:%d" % timeout]), ("cvc5", ["cvc5", "--tlimit=%d" % (timeout * 1000)])):
            procs.append((name, subprocess.Popen(cmd + [o["smt_file"]], stdout=subprocess.PIPE, stderr=subprocess.STDOUT, text=True)))
        t0 = time.time()
        verdict = None
        pending = dict(procs)
        while pending and time.time() - t0 < timeout + 5 and verdict is None:
            for name, pr in list(pending.items()):
                if pr.poll() is not None:
                    out = pr.stdout.read()
                    first = (out.strip().splitlines() or [""])[0].strip()
                    del pending[name]
                    if first in ("unsat", "sat"):
                        verdict = (first, name)
                        break
            time.sleep(0.05)
        for pr in pending.values():
            pr.kill()
        if verdict:
            o["verdict"], o["solver"], o["ms"] = verdict[0], verdict[1] + " (retry)", round((time.time() - t0) * 1000, 1)

    with concurrent.futures.ThreadPoolExecutor(max_workers=5) as ex:
        list(ex.map(one, todo))


def classify(pid, results, baseline, known):
    """Returns dict with lists: discharged, failed (each with status), vacuity problems, errors."""
    base = set(baseline.get(pid, {}).get("clauses", []))
    base_funcs = set(baseline.get(pid, {}).get("functions", []))
    open_known = [k for k in known.get("findings", []) if (k["property"] == pid or (pid in k.get("also", []) and k.get("clause"))) and k.get("status") == "open"]
    rep = {"obligations": [], "violations": [], "known": [], "undecided": [], "errors": [], "vacuity": [], "functions": [], "abstractions": {}, "trusted": set(), "drift": []}
    seen_funcs = set()
    for res in results:
        for m in res.get("contracts_without_function") or []:
            rep["drift"].append("contract names a function that does not exist: " + m)
        for f in res["functions"]:
            fname = f["pkg"].replace("github.com/ozontech/file.d/", "") + "::" + f["name"]
            seen_funcs.add(fname)
            rep["functions"].append({"name": fname, "mode": f["mode"], "loops": f.get("loops", 0), "error": f.get("error", ""),
                                     "loops_without_invariant": f.get("loops_without_invariant") or [], "gen_ms": f.get("gen_ms")})
            # a call-site clause that defined ghosts (set ...) on the baseline tree and matches no call now: the logical
            # variables it defined (the position a library call returned ...) are undefined, clauses over them are not decided
            gone = sorted(set((baseline.get(pid, {}).get("used_set_clauses") or {}).get(fname, [])) - set(f.get("used_set_clauses") or []))
            # ... only for pure value functions of the standard library: a call with an effect (Lock, Write, Commit, a counter of
            # must-calls) that vanished is exactly what the counting clauses are there to report
            gone = [c for c in gone if c.split(".")[-1] in PURE_VALUE_FUNCS]
            if gone and not f.get("error"):
                f.setdefault("drift", [])
                f["drift"] = list(f["drift"]) + ["anchor not found: setat (the call `%s` whose clause defines ghosts is gone)" % c for c in gone]
            for d in f.get("drift") or []:
                rep["drift"].append(fname + ": " + d)
            if f.get("error"):
                rep["errors"].append(fname + ": " + f["error"])
                continue
            for t in f.get("trusted") or []:
                rep["trusted"].add(t)
            if f.get("abstractions"):
                rep["abstractions"][fname] = f["abstractions"]
            # a loop invariant that is unsatisfiable at its own loop head says nothing about this code any more (the loop was
            # rewritten around other variables, e.g. a cursor local replaced by another one): its failure is contract drift,
            # not a violation - and nothing behind that loop head is decided (reported through the vacuity line)
            vac_loops = set()
            for o in f.get("obligations") or []:
                if o.get("vacuity") and o["verdict"] == "unsat":
                    mm = re.search(r"vacuity:loop(\d+)", o["clause"])
                    if mm:
                        vac_loops.add(mm.group(1))
            for o in f.get("obligations") or []:
                o = dict(o)
                o["fname"] = fname
                o["clause"] = f["pkg"].replace("github.com/ozontech/file.d/", "") + "::" + o["clause"]
                if o.get("vacuity"):
                    if o["verdict"] == "unsat":
                        rep["vacuity"].append(o)
                    continue
                rep["obligations"].append(o)
                if o["verdict"] == "unsat":
                    continue
                # failed obligation
                matched = None
                for k in open_known:
                    if k.get("clause") == clause_key(o) and k.get("site", "") == (o.get("src") or ""):
                        matched = k
                        break
                if matched is None:
                    # the statement of a recorded finding may have been re-worded by an unrelated edit (a renamed local):
                    # same clause and a closely similar source line is still that finding; another site of the clause is not
                    import difflib
                    for k in open_known:
                        if k.get("clause") == clause_key(o) and k.get("site") and difflib.SequenceMatcher(None, k["site"], o.get("src") or "").ratio() >= 0.75:
                            matched = k
                            break
                # an anchor of this function's contract was not found (the anchored statement was edited): ghost updates
                # and assumptions tied to it did not happen, so clauses that may depend on them are not decided;
                # run-time safety, locking and frame obligations do not depend on anchors and still count
                # the same holds when an invariant / assumption / postcondition names a local the changed code no longer
                # has (a renamed or removed variable): the clause was dropped for this run, what rested on it is not decided
                helper_loop = any(a.get("kind") == "inline-loop" for a in (f.get("abstractions") or []))
                anchor_drift = any(("anchor not found" in d or "names a variable the code no longer has" in d) for d in (f.get("drift") or []))
                independent = o["kind"] in ("index", "slice", "div", "nil", "panic", "exit", "typeassert", "makeslice", "lock", "monitor", "frame", "shift", "conv")
                # a cover clause that is uncovered although assertions / assumptions were dropped (fewer assumptions = more reachable
                # states) is uncovered for good; only a vanished ghost update (setat) could change what it speaks about
                if o["kind"] == "cover" and not any("anchor not found: setat" in d for d in (f.get("drift") or [])):
                    independent = True
                # ... unless the anchor that vanished carried an explicit assumption (`assume at`): safety proofs rest on those too
                if any("anchor not found: assume" in d for d in (f.get("drift") or [])):
                    independent = False
                # ... or a loop invariant was dropped because it names a local the code no longer has (a rename): the index
                # and slice bounds inside that loop were proved from it
                if any(("invariant" in d and "names a variable the code no longer has" in d) for d in (f.get("drift") or [])):
                    independent = False
                # a guard clause (`requires false` on a call that must not appear) depends on nothing
                independent = independent or (o["desc"] or "").rstrip().endswith("precondition false")
                # a pure lock-state oracle (`requires !held(x.mu)` / `requires held(x.mu)`) rests on the lock tracking only
                independent = independent or bool(re.search(r"precondition !?held\([^()]*\)$", (o["desc"] or "").rstrip()))
                mm = re.search(r"loop(\d+)-invariant", o["clause"])
                if matched:
                    rep["known"].append((o, matched))
                elif helper_loop:
                    o["desc"] = "contract-drift: a loop of this function was moved into a new helper (no invariant there); " + (o["desc"] or "")
                    rep["undecided"].append(o)
                elif mm and mm.group(1) in vac_loops:
                    o["desc"] = "contract-drift: the invariant of loop %s is unsatisfiable at its loop head on this code; " % mm.group(1) + (o["desc"] or "")
                    rep["undecided"].append(o)
                elif clause_key(o) in base and (not anchor_drift or independent):
                    rep["violations"].append(o)
                else:
                    rep["undecided"].append(o)
    for fn in sorted(base_funcs - seen_funcs):
        rep["drift"].append("function under contract at baseline is missing now: " + fn)
    return rep


def write_replay(pid, o, workdir, note="", conc=None):
    d = os.path.join(os.environ.get("VERIF_OUT_DIR") or os.path.join(VERIF, "out"), "replay", pid)
    os.makedirs(d, exist_ok=True)
    name = "".join(c if c.isalnum() or c in "-_." else "_" for c in o["name"])[:150]
    path = os.path.join(d, name + ".json")
    smt = ""
    try:
        if o.get("smt_file"):
            with open(o["smt_file"]) as f:
                smt = f.read()
    except OSError:
        pass
    with open(path, "w") as f:
        json.dump({"property": pid, "obligation": o["name"], "clause": o["clause"], "kind": o["kind"], "pos": o["pos"], "src": o.get("src"),
                   "desc": o["desc"], "verdict": o["verdict"], "solver": o["solver"], "solver_output": o.get("output", ""),
                   "failing_input": (conc or {}).get("confirmed"),
                   "concretisation": conc,
                   "note": note or ("the verifier's model was rebuilt as a concrete input and the real function fails on it (see failing_input; re-run with --replay)"
                                    if conc and conc.get("confirmed") else
                                    "no-failing-input-found: the verifier gave no model that replays as an input of the real function"),
                   "smt_query": smt[-20000:]}, f, indent=1)
    return path


ADAPTERS = os.path.join(VERIF, "replay", "adapters", "adapters.json")


def run_adapter(ad, inp, workdir):
    """Runs the adapter test on the real package (go test -overlay) with the model's input. Returns (failed_with_REPLAY-FAIL, output tail)."""
    ipath = os.path.join(workdir, "replay_input.json")
    with open(ipath, "w") as f:
        json.dump(inp, f)
    src = os.path.join(VERIF, ad["test"])
    dst = os.path.join(REPO, ad["pkg"].lstrip("./"), "zz_verif_replay_adapter_test.go")
    ov = os.path.join(workdir, "ov_adapter.json")
    with open(ov, "w") as f:
        json.dump({"Replace": {dst: src}}, f)
    env = go_env()
    env["VERIF_REPLAY_INPUT"] = ipath
    try:
        p = subprocess.run("ulimit -v 8000000; exec go test -overlay %s -vet=off -count=1 -timeout 60s -run '^%s$' %s/" % (ov, ad["run"], ad["pkg"]),
                           shell=True, cwd=REPO, env=env, stdout=subprocess.PIPE, stderr=subprocess.STDOUT, text=True, timeout=300)
        out = p.stdout
    except subprocess.TimeoutExpired:
        return False, "adapter timed out"
    tail = "\n".join(l for l in out.splitlines() if not l.startswith("{"))[-1500:]
    return ("REPLAY-FAIL" in out), tail


def norm_value(v):
    """SMT literal -> decimal text (bit-vector literals are read as signed)."""
    v = v.strip()
    m = re.fullmatch(r"#x([0-9a-fA-F]+)", v)
    if m:
        w = 4 * len(m.group(1))
        n = int(m.group(1), 16)
        return str(n - (1 << w) if w >= 8 and n >> (w - 1) else n)
    m = re.fullmatch(r"#b([01]+)", v)
    if m:
        return str(int(m.group(1), 2))
    m = re.fullmatch(r"\(\s*-\s*(\d+)\s*\)", v)
    if m:
        return "-" + m.group(1)
    return v


def printable_inputs(inputs):
    """Renders byte-slice / string inputs of a model as text, the rest as name=value."""
    parts = []
    first = ("data", "s", "content", "selector", "b")
    names = sorted(set(k[:-4] for k in inputs if k.endswith(".len")), key=lambda n: (n not in first, n))
    for n in names:
        try:
            ln = int(inputs[n + ".len"])
        except ValueError:
            continue
        if 0 <= ln <= 4096 and any(k.startswith(n + "[") for k in inputs):
            bs = []
            for i in range(ln):
                try:
                    bs.append(int(inputs.get("%s[%d]" % (n, i), "63")) & 255)
                except ValueError:
                    bs.append(63)
            if bs and set(bs) <= {63} and n not in first:
                continue
            parts.append("%s=%r" % (n, bytes(bs)))
    for k in sorted(inputs):
        if not k.endswith(".len") and "[" not in k:
            parts.append("%s=%s" % (k, inputs[k]))
    return " ".join(parts)


def concretise(o, workdir, budget):
    """Counterexample search for a failed obligation: re-runs govc on the function in concretisation mode (loops unrolled K times,
    in-repo callees inlined), asks the solver for the values of the function's inputs, rebuilds them and runs the REAL function through
    the package's replay adapter. Only an input on which the real code fails is reported."""
    ads = load_json(ADAPTERS, {})
    fn = o.get("func") or ""
    pkgs = o.get("_pkgs") or []
    cands = []
    for name, ad in ads.items():
        if name.startswith("_") or ad["pkg"] not in pkgs:
            continue
        if fn in ad["functions"]:
            cands.append((ad, fn))
    if not cands:
        return {"tried": [], "reason": "no replay adapter for " + fn}
    clause_id = o["clause"].split(" :: ", 1)[-1]
    clause_id = re.sub(r"#\d+$", "", clause_id)
    info = {"tried": [], "confirmed": None}
    targets = [("%s@%s" % (clause_id, o["pos"]), (1, 2, 3, 6))]
    if not clause_id.startswith("safety:"):
        # a loop invariant / assertion has no counterpart in the unrolled program: look for any run-time panic of the function instead
        if not clause_id.startswith("ensures"):
            targets.append(("ensures", (2, 4)))
        targets.append(("safety:", (2, 4)))
    for ad, f in cands:
        for target, ks in targets:
            for k in ks:
                if budget[0] <= 0:
                    info["reason"] = "time budget for counterexample search used up"
                    return info
                t1 = time.time()
                tag = "conc_%s_%d_%d" % ("".join(c if c.isalnum() else "_" for c in f)[:40], k, len(info["tried"]))
                res, log = run_govc([ad["pkg"]], re.escape(f) + "$", 8, workdir, tag, extra=["-unroll", str(k), "-target", target])
                budget[0] -= time.time() - t1
                if res is None:
                    info["tried"].append({"unroll": k, "target": target, "error": log.strip()[-300:]})
                    continue
                models = [x for fr in res.get("functions", []) for x in (fr.get("obligations") or []) if x.get("verdict") == "sat" and x.get("model_inputs")]
                info["tried"].append({"unroll": k, "target": target, "models": len(models)})
                for m in models[:6]:
                    m["model_inputs"] = {a: norm_value(b) for a, b in m["model_inputs"].items()}
                    inp = {"func": f, "inputs": m["model_inputs"]}
                    t1 = time.time()
                    failed, tail = run_adapter(ad, inp, workdir)
                    budget[0] -= time.time() - t1
                    if failed:
                        info["confirmed"] = {"adapter": ad, "input": inp, "unroll": k, "target": target, "model_of": m["name"],
                                             "printable": printable_inputs(m["model_inputs"]), "real_code_output": tail}
                        return info
                    info["tried"][-1].setdefault("not_reproduced", []).append(printable_inputs(m["model_inputs"])[:200])
    return info


def main():
    ap = argparse.ArgumentParser()
    ap.add_argument("prop")
    ap.add_argument("--tier", default=os.environ.get("VERIF_TIER", "quick"))
    ap.add_argument("--replay")
    ap.add_argument("--update-baseline", action="store_true")
    ap.add_argument("--keep", action="store_true")
    args = ap.parse_args()
    pid = args.prop
    if pid not in PROPS:
        print("unknown property", pid)
        return 2
    P = PROPS[pid]
    tier = "thorough" if args.tier == "thorough" else "quick"
    seed = int(os.environ.get("VERIF_SEED", "0") or 0)
    t0 = time.time()
    ensure_govc()
    if args.replay:
        with open(args.replay) as f:
            r = json.load(f)
        print(json.dumps({k: r[k] for k in ("property", "obligation", "clause", "pos", "desc", "verdict", "failing_input", "note")}, indent=1))
        fi = r.get("failing_input")
        if fi and fi.get("adapter"):
            wd = tempfile.mkdtemp(prefix="verif-replay-")
            try:
                failed, tail = run_adapter(fi["adapter"], fi["input"], wd)
            finally:
                shutil.rmtree(wd, ignore_errors=True)
            print(tail)
            if failed:
                print("VIOLATION property=%s replay=%s the stored input still fails on the real code" % (r["property"], args.replay))
                return 1
            print("the stored input no longer fails on the current tree")
        return 0
    workdir = tempfile.mkdtemp(prefix="verif-%s-" % pid)
    try:
        timeout = 10 if tier == "quick" else 60
        results = []
        logs = []
        fatal = None
        for gi, (pkgs, only) in enumerate(P["groups"]):
            res, log = run_govc(pkgs, only, timeout, workdir, "g%d" % gi)
            logs.append(log)
            if res is None:
                fatal = log
                break
            for fr in res.get("functions", []):
                for o in fr.get("obligations") or []:
                    o["_pkgs"] = pkgs
            results.append(res)
        baseline = load_json(BASELINE, {})
        known = load_json(KNOWN, {"findings": []})
        if fatal is not None:
            # the tree does not load / type-check with the contracts: nothing can be decided
            print("UNDECIDED property=%s govc could not load the packages: %s" % (pid, fatal.strip()[-600:]))
            write_evidence(pid, P, tier, seed, t0, None, fatal)
            return 0
        retry_undecided(pid, results, known, 60 if tier == "quick" else 180)
        rep = classify(pid, results, baseline, known)
        if args.update_baseline:
            clauses = set()
            failed = set(clause_key(o) for o in rep["undecided"])
            for o in rep["obligations"]:
                clauses.add(clause_key(o))
            # a clause is locked only if every obligation of it discharged, or its failures are all known findings
            # guard clauses: preconditions of callee clauses that no call matches on this tree (they guard calls a
            # change may introduce, e.g. "a node must never be pointed at the scratch buffer"); never failed here, so locked
            for res in results:
                for fr in res["functions"]:
                    for gc in fr.get("guard_clauses") or []:
                        clauses.add(fr["pkg"].replace("github.com/ozontech/file.d/", "") + "::" + gc)
            locked = sorted(c for c in clauses if c not in failed)
            used_sets = {}
            for res in results:
                for fr in res["functions"]:
                    if fr.get("used_set_clauses"):
                        used_sets[fr["pkg"].replace("github.com/ozontech/file.d/", "") + "::" + fr["name"]] = sorted(set(fr["used_set_clauses"]))
            baseline[pid] = {"clauses": locked, "functions": sorted(f["name"] for f in rep["functions"] if not f["error"]),
                             "obligations": len(rep["obligations"]), "used_set_clauses": used_sets}
            os.makedirs(os.path.dirname(BASELINE), exist_ok=True)
            with open(BASELINE, "w") as f:
                json.dump(baseline, f, indent=1, sort_keys=True)
            sigs = load_json(LOOPSIGS, {})
            for res in results:
                for fr in res["functions"]:
                    if fr.get("loop_sigs") and not fr.get("loops_remapped") and not fr.get("error"):
                        sigs[fr["pkg"] + "::" + fr["name"]] = fr["loop_sigs"]
            with open(LOOPSIGS, "w") as f:
                json.dump(sigs, f, indent=1, sort_keys=True)
            forms = load_json(LOOPSIGS + ".forms", {})
            for res in results:
                for fr in res["functions"]:
                    if fr.get("loop_forms") and not fr.get("loops_remapped") and not fr.get("error"):
                        forms[fr["pkg"] + "::" + fr["name"]] = fr["loop_forms"]
            with open(LOOPSIGS + ".forms", "w") as f:
                json.dump(forms, f, indent=1, sort_keys=True)
            kf = load_json(KNOWNFUNCS, {})
            for res in results:
                for pk, l in (res.get("root_funcs") or {}).items():
                    kf[pk] = l
            with open(KNOWNFUNCS, "w") as f:
                json.dump(kf, f, indent=0, sort_keys=True)
            print("baseline for %s: %d clauses locked, %d not locked (failing, not known)" % (pid, len(locked), len(failed)))
            rep = classify(pid, results, baseline, known)
        rc = 0
        for o, k in rep["known"]:
            print("KNOWN-FINDING: property=%s %s [%s @ %s]" % (pid, k["what"], o["clause"], o.get("src")))
        # findings recorded by input only (no contract within reach states them): listed on every run, replayed in the thorough tier
        rep["replay_known"] = [k for k in known.get("findings", []) if k["property"] == pid and k.get("status") == "open" and k.get("kind") == "replay"]
        for k in rep["replay_known"]:
            print("KNOWN-FINDING: property=%s %s [input: %s; replay %s %s]" % (pid, k["what"], k.get("input", ""), k.get("canary") or k.get("script"), k.get("test", "")))
        budget = [float(os.environ.get("VERIF_CONC_BUDGET") or (240.0 if tier == "quick" else 900.0))]
        for o in rep["violations"]:
            conc = concretise(o, workdir, budget)
            path = write_replay(pid, o, workdir, conc=conc)
            if conc and conc.get("confirmed"):
                print("VIOLATION property=%s replay=%s obligation=%s (%s: %s) failing-input=%s" % (
                    pid, path, o["name"], o["verdict"], o["desc"][:160], conc["confirmed"]["printable"][:120]))
            else:
                print("VIOLATION property=%s replay=%s obligation=%s (%s: %s) no-failing-input-found" % (pid, path, o["name"], o["verdict"], o["desc"][:160]))
            rc = 1
        for o in rep["undecided"]:
            print("UNDECIDED property=%s obligation=%s (%s) not in baseline: %s" % (pid, o["name"], o["verdict"], o["desc"][:120]))
        for e in rep["errors"]:
            print("UNDECIDED property=%s tool-limit %s" % (pid, e))
        for d in rep["drift"]:
            print("UNDECIDED property=%s contract-drift %s" % (pid, d))
        for o in rep["vacuity"]:
            print("UNDECIDED property=%s vacuous-assumption %s" % (pid, o["name"]))
        extra = {}
        if tier == "thorough":
            extra, rc2 = thorough_extras(pid, P, workdir, rep)
            rc = max(rc, rc2)
        write_evidence(pid, P, tier, seed, t0, rep, None, results, extra)
        n = len(rep["obligations"])
        n0 = (baseline.get(pid) or {}).get("obligations") or 0
        if n0 and n < 0.9 * n0:
            print("NOTE property=%s coverage shrank: %d obligations generated, %d when the baseline was recorded (see UNDECIDED lines)" % (pid, n, n0))
        d = sum(1 for o in rep["obligations"] if o["verdict"] == "unsat")
        print("%s %s: %d/%d obligations discharged over %d functions, %d known findings, %d violations, %.1fs" % (
            pid, tier, d, n, len(rep["functions"]), len(rep["known"]) + len(rep.get("replay_known", [])), len(rep["violations"]), time.time() - t0))
        return rc
    finally:
        if not args.keep:
            shutil.rmtree(workdir, ignore_errors=True)
        else:
            print("kept", workdir)


def run_canary(pkg, testfile, runpat, workdir):
    """Runs a replay test file against the real package through `go test -overlay`. Returns (passed, tail of output)."""
    src = os.path.join(VERIF, testfile)
    dst = os.path.join(REPO, pkg.lstrip("./"), os.path.basename(testfile))
    ov = os.path.join(workdir, "ov_%s.json" % os.path.basename(testfile))
    with open(ov, "w") as f:
        json.dump({"Replace": {dst: src}}, f)
    p = subprocess.run(["go", "test", "-overlay", ov, "-vet=off", "-count=1", "-timeout", "120s", "-run", "^" + runpat + "$", pkg + "/"],
                       cwd=REPO, env=go_env(), stdout=subprocess.PIPE, stderr=subprocess.STDOUT, text=True)
    tail = "\n".join(l for l in p.stdout.splitlines() if not l.startswith("{"))[-800:]
    return p.returncode == 0, tail


def thorough_extras(pid, P, workdir, rep):
    """Thorough tier: replay canaries of fixed / open findings, must-fail mutant corpus, second-solver agreement."""
    extra = {"canaries": [], "mutants": [], "agreement": {}}
    rc = 0
    # 1. fixed findings: their inputs must pass on this tree (a fixed entry suppresses nothing)
    for pkg, tf, pat in P.get("canaries", []):
        ok, tail = run_canary(pkg, tf, pat, workdir)
        extra["canaries"].append({"test": pat, "kind": "fixed-finding input must pass", "passed": ok})
        if not ok:
            d = os.path.join(VERIF, "out", "replay", pid)
            os.makedirs(d, exist_ok=True)
            path = os.path.join(d, "canary_%s.json" % pat)
            with open(path, "w") as f:
                json.dump({"property": pid, "obligation": "replay canary " + pat, "failing_input": "see " + tf, "output": tail}, f, indent=1)
            print("VIOLATION property=%s replay=%s canary %s fails again on the real code: %s" % (pid, path, pat, tail.strip().splitlines()[-1] if tail.strip() else ""))
            rc = 1
    for sc in P.get("script_canaries", []):
        p = subprocess.run([os.path.join(VERIF, sc), REPO], stdout=subprocess.PIPE, stderr=subprocess.STDOUT, text=True)
        extra["canaries"].append({"test": sc, "kind": "fixed-finding script must pass", "passed": p.returncode == 0})
        if p.returncode != 0:
            d = os.path.join(VERIF, "out", "replay", pid)
            os.makedirs(d, exist_ok=True)
            path = os.path.join(d, "canary_script.json")
            with open(path, "w") as f:
                json.dump({"property": pid, "obligation": "replay script " + sc, "output": p.stdout[-1500:]}, f, indent=1)
            print("VIOLATION property=%s replay=%s %s fails again on the real code" % (pid, path, sc))
            rc = 1
    # 2. open findings: their stored input must still fail (otherwise the entry is stale)
    for pkg, tf, pat in P.get("known_canaries", []):
        ok, tail = run_canary(pkg, tf, pat, workdir)
        extra["canaries"].append({"test": pat, "kind": "open-finding input still fails", "still_fails": not ok})
        if ok:
            print("NOTE property=%s the stored input of open finding %s no longer fails on the real code: the known-findings entry is stale" % (pid, pat))
    for k in rep.get("replay_known", []):
        if k.get("script"):
            pr = subprocess.run([os.path.join(VERIF, k["script"]), REPO], stdout=subprocess.PIPE, stderr=subprocess.STDOUT, text=True)
            ok = pr.returncode == 0
        else:
            ok, tail = run_canary(k["pkg"], k["canary"], k["test"], workdir)
        extra["canaries"].append({"test": k.get("test") or k.get("script"), "kind": "open-finding input still fails", "still_fails": not ok})
        if ok:
            print("NOTE property=%s the stored input of open finding %s no longer fails on the real code: the known-findings entry is stale" % (pid, k.get("test") or k.get("script")))
    # 3. must-fail corpus: every mutant must make some baseline clause fail
    corpus = load_json(os.path.join(VERIF, "selftest", "mutants.json"), {}).get(pid, [])
    # behaviour-preserving textual rewrites (written with the contracts): none may raise an alarm
    corpus = corpus + [dict(b, benign=True) for b in load_json(os.path.join(VERIF, "selftest", "benign.json"), {}).get(pid, [])]
    extra.setdefault("benign", [])
    baseline = load_json(BASELINE, {})
    known = load_json(KNOWN, {"findings": []})
    for i, m in enumerate(corpus):
        f = os.path.join(REPO, m["file"])
        try:
            src = open(f).read()
        except OSError:
            extra["mutants"].append({"note": m.get("note"), "status": "file missing"})
            continue
        if src.count(m["old"]) < 1:
            extra["mutants"].append({"note": m.get("note"), "status": "anchor not found (code changed)"})
            continue
        mf = os.path.join(workdir, "mut_%d.go" % i)
        with open(mf, "w") as out:
            out.write(src.replace(m["old"], m["new"], 1))
        ov = os.path.join(workdir, "mut_%d.json" % i)
        with open(ov, "w") as out:
            json.dump({f: mf}, out)
        results = []
        bad = False
        mdir = os.path.dirname(m["file"])
        groups = [g for g in P["groups"] if any(pk.lstrip("./") == mdir for pk in g[0])] or P["groups"]
        for gi, (pkgs, only) in enumerate(groups):
            res, log = run_govc(pkgs, only, 10, workdir, "m%d_g%d" % (i, gi), overlay=ov)
            if res is None:
                bad = True
                break
            results.append(res)
        if bad:
            extra["mutants"].append({"note": m.get("note"), "status": "mutant does not type-check"})
            continue
        r2 = classify(pid, results, baseline, known)
        # functions of groups that were not re-run are not "missing"
        caught = [o["name"] for o in r2["violations"]][:3]
        if m.get("benign"):
            extra["benign"].append({"note": m.get("note"), "file": m["file"], "status": "ALARM" if caught else "quiet", "failing": caught})
            if caught:
                print("SELFTEST property=%s behaviour-preserving rewrite raised an alarm: %s (%s): %s" % (pid, m.get("note"), m["file"], caught[0]))
            continue
        extra["mutants"].append({"note": m.get("note"), "file": m["file"], "status": "caught" if caught else "MISSED", "failing": caught})
        if not caught:
            print("SELFTEST property=%s mutant not caught: %s (%s)" % (pid, m.get("note"), m["file"]))
    # 4. agreement: discharged obligations re-checked with the other solvers (sample)
    import random
    rnd = random.Random(int(os.environ.get("VERIF_SEED", "0") or 0))
    # (cover clauses are discharged by a SATISFIABLE member: their recorded verdict is not the solver's answer - left out)
    dis = [o for o in rep["obligations"] if o["verdict"] == "unsat" and o.get("kind") != "cover" and o.get("smt_file") and os.path.exists(o["smt_file"])]
    sample = dis if len(dis) <= 40 else rnd.sample(dis, 40)
    agree = {"checked": 0, "confirmed_by_second_solver": 0, "second_solver_undecided": 0, "disagreements": []}
    for o in sample:
        others = [s for s in ("z3", "cvc5", "z3-new") if s != o["solver"]]
        got = None
        for sname in others[:2]:
            cmd = {"z3": ["z3", "-T:20"], "z3-new": ["z3-new", "-T:20"], "cvc5": ["cvc5", "--tlimit=20000"]}[sname] + [o["smt_file"]]
            try:
                p = subprocess.run(cmd, stdout=subprocess.PIPE, stderr=subprocess.STDOUT, text=True, timeout=25)
                first = (p.stdout.strip().splitlines() or [""])[0]
            except subprocess.TimeoutExpired:
                first = "timeout"
            if first in ("unsat", "sat"):
                got = (sname, first)
                break
        agree["checked"] += 1
        if got is None:
            agree["second_solver_undecided"] += 1
        elif got[1] == "unsat":
            agree["confirmed_by_second_solver"] += 1
        else:
            agree["disagreements"].append({"obligation": o["name"], "first": o["solver"], "second": got[0]})
            print("UNDECIDED property=%s solver-disagreement %s: %s says unsat, %s says sat" % (pid, o["name"], o["solver"], got[0]))
    extra["agreement"] = agree
    return extra, rc


def write_evidence(pid, P, tier, seed, t0, rep, fatal, results=None, extra=None):
    evdir = os.environ.get("VERIF_EVIDENCE_DIR") or os.path.join(VERIF, "evidence")
    os.makedirs(evdir, exist_ok=True)
    path = os.path.join(evdir, pid + ".json")
    ev = {"property_id": pid, "tier": tier, "seed": seed, "level": P["level"], "wall_s": round(time.time() - t0, 2)}
    checker = "python3 checks/run.py %s --tier %s  (govc: go/ssa naive form -> SMT-LIB; z3 5.1.0, z3 4.8.12, cvc5 1.0 portfolio)" % (pid, tier)
    if rep is None:
        ev["coverage"] = {"obligations": 0, "discharged": 0, "checker_cmd": checker, "trusted_base": [], "explanation": "govc could not load the tree: " + (fatal or "")[-1500:],
                          "evaluations": 0, "distinct_nontrivial": 0}
        ev["violations"] = 0
        ev["assumptions"] = []
        ev["level"] = "other"
        with open(path, "w") as f:
            json.dump(ev, f, indent=1)
        return
    # obligations whose clause is an OPEN FINDING (a recorded defect of the pinned tree, printed as KNOWN-FINDING on every run)
    # are not part of what this check claims: they are counted and listed separately
    known_names = set(o["name"] for o, _ in rep["known"])
    obls = [o for o in rep["obligations"] if o["name"] not in known_names]
    dis = [o for o in obls if o["verdict"] == "unsat"]
    backends = {}
    solver_ms = 0.0
    for o in obls:
        backends[o["solver"]] = backends.get(o["solver"], 0) + 1
        solver_ms += o.get("ms") or 0
    samples = []
    for o in obls[:6] + [o for o in obls if o["kind"] in ("requires", "ensures", "invariant-preserved")][:10]:
        s = {"obligation": o["name"], "clause": o["clause"], "verdict": o["verdict"], "solver": o["solver"], "ms": o["ms"], "desc": o["desc"][:200]}
        if s not in samples:
            samples.append(s)
    trusted = sorted(rep["trusted"]) + [
        "govc itself (VC generator over go/ssa, ~10 kloc, tested by the must-fail corpus)", "go/ssa naive form agrees with the compiler",
        "SMT solvers z3 5.1.0 / z3 4.8.12 / cvc5 1.0",
    ]
    int_mode = [f["name"] for f in rep["functions"] if f["mode"] == "int"]
    assumptions = list(P.get("assumptions", []))
    if int_mode:
        assumptions.append("int/int64 arithmetic treated as mathematical (no overflow) in: " + ", ".join(int_mode))
    nil_fns = sorted(set(o["fname"] for o in obls if o["kind"] == "nil"))
    no_nil = sorted(set(f["name"] for f in rep["functions"]) - set(nil_fns))
    assumptions.append("nil dereference: checked (an obligation per dereference, %d in all) in %d functions; assumed away in the other %d: %s"
                       % (len([o for o in obls if o["kind"] == "nil"]), len(nil_fns), len(no_nil), ", ".join(no_nil) or "-"))
    assumptions.append("functions are verified as sequential code; fields not under a declared monitor are assumed race-free")
    n_abs = sum(len(v) for v in rep["abstractions"].values())
    explanation = P["claim"]
    if P.get("undecided"):
        explanation += " NOT DECIDED: " + "; ".join(P["undecided"])
    cov = {
        "obligations": len(obls), "discharged": len(dis), "checker_cmd": checker, "trusted_base": trusted,
        "explanation": explanation, "samples": samples,
        "functions_under_contract": rep["functions"],
        "backends": backends, "solver_time_s": round(solver_ms / 1000, 3),
        "abstracted": rep["abstractions"], "abstracted_count": n_abs,
        "known_findings": [{"clause": o["clause"], "site": o.get("src"), "what": k["what"]} for o, k in rep["known"]] +
                          [{"clause": None, "site": k.get("site"), "what": k["what"], "input": k.get("input"), "replay": k.get("canary") or k.get("script")} for k in rep.get("replay_known", [])],
        "open_finding_obligations": len(known_names),
        "undecided": [{"obligation": o["name"], "verdict": o["verdict"], "desc": o["desc"][:200]} for o in rep["undecided"]] + rep["errors"] + rep["drift"],
        "vacuity_failures": [o["name"] for o in rep["vacuity"]],
        "violating_obligations": [o["name"] for o in rep["violations"]],
        "evaluations": len(obls), "distinct_nontrivial": len(set(o["name"] for o in obls if not o.get("trivial"))),
        "rule": "one evaluation = one proof obligation generated from the current source; non-trivial = not discharged syntactically",
    }
    if extra:
        cov["thorough"] = extra
    ev["coverage"] = cov
    ev["assumptions"] = assumptions
    ev["violations"] = len(rep["violations"])
    if ev["level"] == "proof" and len(dis) != len(obls):
        # known findings / undecided obligations: this run is not a complete proof
        ev["level"] = "other"
        cov["explanation"] = "INCOMPLETE THIS RUN (%d of %d obligations discharged). " % (len(dis), len(obls)) + cov["explanation"]
    with open(path, "w") as f:
        json.dump(ev, f, indent=1)


if __name__ == "__main__":
    sys.exit(main())
