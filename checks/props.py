# Property -> what govc verifies for it.  Kept as data so run.py stays generic.
#
# level: "proof"  = the property's main quantifier is decided by the discharged obligations (class D in DESIGN.md)
#        "other"  = only named mechanisms / clauses are proved (class P); `undecided` says what is not
#
# groups: list of (package patterns, regexp over function RelStrings) -- one govc run per group.

PROPS = {}


def prop(pid, **kw):
    kw["id"] = pid
    PROPS[pid] = kw


prop(
    "C11",
    level="proof",
    design_ref="DESIGN.md section 3, C11",
    groups=[(["./plugin/input/http"], r"^\(\*Plugin\)\.(processChunk|processBulk)$")],
    claim=(
        "For every request body, every chunking of it into reads (io.Reader.Read may return any n) and every buffer state, "
        "each call of the pipeline's In() made by processBulk/processChunk receives exactly the next newline-separated line of the body "
        "(oracle: callee clause on In, taken from the property text), and processBulk returns nil only after the whole body, "
        "including an unterminated last line, has been handed over. Proved by loop invariants over the real SSA, no bound."
    ),
    undecided=[
        "serveBulk: that the 200 response is written only when processBulk returned nil is straight-line code behind a conditional defer (not modelled); read, not proved",
        "concurrent requests never mix bytes: rests on sync.Pool handing a buffer to one owner at a time (trusted) and on the source-id free list (monitor clause, not yet under contract)",
        "gzip: the same contract over the decompressed stream; gzip.Reader is trusted to be an io.Reader of it",
    ],
    assumptions=[
        "io.Reader.Read contract (callee clause Read): returns 0<=n<=len(p) bytes of the stream, (0, EOF) only at its end",
        "controller.In writes nothing but data[0:len(data)] (callee clause In: modifies data)",
        "newReadBuff/newEventBuffs return buffers owned by this request (sync.Pool ownership)",
    ],
)

prop(
    "C12",
    level="proof",
    design_ref="DESIGN.md section 3, C12",
    groups=[(["./decoder"], r".*")],
    canaries=[("./decoder", "replay/C12/zz_replay_c12_test.go", "TestVerifReplayC12")],
    claim=(
        "Totality and frame of the hand-written decoders, for every byte string: DecodeCRI, DecodePostgres, nginx error (Decode, extractCustomFields, spaceSplit), "
        "syslog priority, RFC3164 (Decode, validateTimestamp), RFC5424 (Decode, validateTimestamp, parseStructuredData with its closures inlined and bytes.Reader modelled over its real fields, "
        "readUntilSpaceOrNilValue), CSV Decode, atoi/checkNumber/isDigit are proved free of index, slice-bound, division and explicit panics, and to write nothing outside data[0:len(data)] "
        "(modifies / pure clauses checked on every store, append and copy). Faithfulness is proved for CRI (Time = bytes before the first space, 6-byte stream without spaces, Log = the rest minus the newline of partial lines), "
        "spaceSplit (strictly increasing positions of spaces) and the syslog priority range (0..191, offset 2..4)."
    ),
    undecided=[
        "json and protobuf decoders: behaviour is third-party (insane-json, protocompile): decode/re-encode fidelity is not applicable to contracts on file.d code",
        "json_max_fields_size cut (cutFieldsBySize) leaves valid JSON: needs a JSON grammar; not decided here",
        "field-exactness of postgres / nginx / RFC3164 / RFC5424 / CSV rows (only safety and frame are proved for them)",
    ],
    assumptions=[
        "lib contracts for bytes.IndexByte/IndexAny/LastIndex/TrimSuffix/Trim/Equal, bytes.Reader.Reset/ReadByte, fmt.Errorf/errors.New (non-nil)",
        "CSV buffers from sync.Pool are owned by the call (treated as fresh)",
        "map contents are not modelled (map updates/lookups in extractCustomFields and parseStructuredData are abstracted; they cannot panic on non-nil maps)",
    ],
)
