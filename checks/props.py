# Property -> what govc verifies for it.  Kept as data so run.py stays generic.
#
# level: "proof"  = the property's main quantifier is decided by the discharged obligations (class D in DESIGN.md)
#        "other"  = only named mechanisms / clauses are proved (class P); `undecided` says what is not
#
# groups: list of (package patterns, regexp over function RelStrings) -- one govc run per group.

PROPS = {}


def prop(pid, **kw):
    kw["id"] = pid
    PROPS[pid] = kw


prop(
    "C11",
    level="proof",
    design_ref="DESIGN.md section 3, C11",
    groups=[(["./plugin/input/http"], r"^(\(\*Plugin\)\.(processChunk|processBulk|newReadBuff|newEventBuffs|serveBulk|getSourceID|putSourceID|ServeHTTP|auth|authBasic|authBearer|acquireGzipReader|Start)|newMetaInformation|getUserIP|\(\*CORSConfig\)\.getAllowedByOrigin)$")],
    canaries=[("./plugin/input/http", "replay/C11/zz_content_encoding_case_test.go", "TestVerifContentEncodingAnyCase")],
    claim=(
        "For every request body, every chunking of it into reads (io.Reader.Read may return any n) and every buffer state, "
        "each call of the pipeline's In() made by processBulk/processChunk receives exactly the next newline-separated line of the body "
        "(oracle: callee clause on In, taken from the property text), and processBulk returns nil only after the whole body, "
        "including an unterminated last line, has been handed over. Proved by loop invariants over the real SSA, no bound. "
        "Handler: ServeHTTP asks auth exactly once, answers a refusal with one 401 and nothing else, runs serveBulk at most once, only after a yes, before anything was written, and never reads the body itself (guards); "
        "auth / authBasic / authBearer call exactly the configured checker and return its verdict; the gzip reader is built over this request's body; Start leaves the free list of source ids empty (its representation invariant holds before the first request). "
        "NOT part of the claim (open finding, printed as KNOWN-FINDING): in elasticsearch emulate mode a request to an unknown path is answered 200 although its body was not processed."
    ),
    undecided=[
        "concurrent requests never mix bytes: rests on sync.Pool handing a buffer to one owner at a time (trusted); the source-id free list is under a monitor invariant (distinct ids below sourceSeq, the returned id leaves the list) given that an id is put back once, by its holder (explicit assumption in putSourceID)",
        "gzip: the same contract over the decompressed stream; gzip.Reader is trusted to be an io.Reader of it",
    ],
    assumptions=[
        "io.Reader.Read contract (callee clause Read): returns 0<=n<=len(p) bytes of the stream, (0, EOF) only at its end",
        "controller.In writes nothing but data[0:len(data)] (callee clause In: modifies data)",
        "newReadBuff/newEventBuffs return buffers owned by this request (sync.Pool ownership)",
    ],
)

prop(
    "C12",
    level="proof",
    design_ref="DESIGN.md section 3, C12",
    groups=[(["./decoder"], r".*"), (["./pipeline"], r"^\(\*Pipeline\)\.In$")],
    canaries=[("./decoder", "replay/C12/zz_replay_c12_test.go", "TestVerifReplayC12"), ("./decoder", "replay/C12/zz_json_cut_test.go", "TestVerifJsonCutEscapes"), ("./decoder", "replay/C12/zz_cri_partial_last_byte_test.go", "TestVerifCRIPartialKeepsLastByte"),
              ("./decoder", "replay/C12/zz_json_cut_same_field_test.go", "TestVerifJsonCutSameField"), ("./decoder", "replay/C12/zz_json_cut_modifier_path_test.go", "TestVerifJsonCutModifierPath")],
    claim=(
        "Totality and frame of the hand-written decoders, for every byte string: DecodeCRI, DecodePostgres, nginx error (Decode, extractCustomFields, spaceSplit), "
        "syslog priority, RFC3164 (Decode, validateTimestamp), RFC5424 (Decode, validateTimestamp, parseStructuredData with its closures inlined and bytes.Reader modelled over its real fields, "
        "readUntilSpaceOrNilValue), CSV Decode, atoi/checkNumber/isDigit are proved free of index, slice-bound, division and explicit panics, and to write nothing outside data[0:len(data)] "
        "(modifies / pure clauses checked on every store, append and copy). Faithfulness is proved for CRI (Time = bytes before the first space, 6-byte stream without spaces, Log = the rest minus the newline of partial lines), "
        "spaceSplit (strictly increasing positions of spaces) and the syslog priority range (0..191, offset 2..4). "
        "Per-field size limit of the JSON decoder: under the trusted gjson result contract, the cut range of findPos lies inside the string literal, keeps at most the limit in raw bytes and ends exactly before the closing quote "
        "(jsonCutLen: within the string, within the limit, total on any string) - the fix for values with escape sequences came out of this."
    ),
    undecided=[
        "json and protobuf decoders: behaviour is third-party (insane-json, protocompile): decode/re-encode fidelity is not applicable to contracts on file.d code",
        "json_max_fields_size cut (cutFieldsBySize) leaves valid JSON: needs a JSON grammar; not decided here",
        "field-exactness of postgres / nginx / RFC3164 / RFC5424 / CSV rows (only safety and frame are proved for them)",
    ],
    assumptions=[
        "lib contracts for bytes.IndexByte/IndexAny/LastIndex/TrimSuffix/Trim/Equal, bytes.Reader.Reset/ReadByte, fmt.Errorf/errors.New (non-nil)",
        "CSV buffers from sync.Pool are owned by the call (treated as fresh)",
        "map contents are not modelled (map updates/lookups in extractCustomFields and parseStructuredData are abstracted; they cannot panic on non-nil maps)",
    ],
)

prop(
    "C20",
    level="proof",
    design_ref="DESIGN.md section 3, C20",
    groups=[(["./pipeline"], r"^\(\*Pipeline\)\.(checkInputBytes|In|Error|antispammerMaintenance)$"), (["./pipeline/antispam"], r"^(\(\*Antispammer\)\.(IsSpam|Maintenance)|\(\*antispamData\)\.Get)$"), (["./cfg/matchrule"], r"^\(\*(Rule|RuleSet)\)\.(Match|match|Prepare)$"),
            (["./fd"], r"^(scaleAntispamThreshold|extractAntispamRules|extractPipelineParams)$")],
    canaries=[("./pipeline", "replay/C20/zz_raw_last_byte_test.go", "TestVerifRawKeepsRecordBytes"),
              ("./fd", "replay/C20/zz_subsecond_interval_test.go", "TestVerifAntispamSubSecondInterval"),
              ("./cfg/matchrule", "replay/C20/zz_rule_without_values_test.go", "TestVerifRuleWithoutValuesDoesNotPanic")],
    claim=(
        "Sequential admission control, for all records and settings: checkInputBytes has an exact postcondition (refuses iff empty, lone newline, or oversize with cutting disabled; within the limit the record is returned unchanged; "
        "a cut record is its first max_event_size bytes plus its newline, written inside the caller's record - frame checked); Pipeline.In returns 0 only on one of the listed reasons "
        "(size/empty, undecodable, already committed, antispam, PassEvent) and consults the antispam only for complete records with threshold >= 0; IsSpam never drops when disabled or when a legacy exception matches, "
        "matches every exception against the event bytes or the source name as configured (oracle on Match), and increments a source's counter at most once per call; "
        "Maintenance maps each counter x to min(max(x-T,0),U*T) for the source's own stored threshold T; the configured per-second thresholds (pipeline-wide and per rule) reach the antispammer converted to "
        "per-interval ones with 0 and -1 kept and a positive value never becoming 0 (scaleAntispamThreshold and its two call sites); every match rule is usable after Prepare."
    ),
    undecided=[
        "unsynchronised load/swap/inc on one source's counter under concurrent readers (schedules)",
        "the multi-round statements (ban only after >= threshold arrivals since the last round; unban within U+1 rounds) follow from the per-call and per-round contracts by an induction stated in DESIGN.md, not machine-checked",
        "the configured cut-off mark field is added through insane-json (third-party): not under contract",
    ],
    assumptions=[
        "p.settings.MaxEventSize >= 0 and a valid decoder type (requires on checkInputBytes / In: configuration validity)",
        "go.uber.org/atomic Int32/Int64 methods behave as their sequential contracts over field v",
        "calls into insane-json, metrics, the event pool and the streamer are abstracted (all heaps havocked) except where a callee clause names them",
    ],
)

prop(
    "C10",
    level="proof",
    design_ref="DESIGN.md section 3, C10",
    groups=[(["./plugin/input/kafka"], r"^(assembleSourceID|disassembleSourceID|assembleOffset|disassembleOffset|\(\*Plugin\)\.Commit|\(\*Plugin\)\.Start|\(\*pconsumer\)\.consume|\(\*Plugin\)\.Stop|\(\*splitConsume\)\.(Assigned|Lost|consume|consume\$1)|NewClient|newMetaInformation|\(metaInformation\)\.GetData)$")],
    claim=(
        "Packing clauses of C10, for all topic indices / offsets below 2^47 and partitions / leader epochs 0..65535: the four packing functions are verified with exact 64-bit bit-vector semantics "
        "(source id = index*2^16+partition, offset = recordOffset*2^16+epoch, both decode back exactly); consume hands every record to In with exactly that id/offset and the record's own value; "
        "Commit marks offset+1 with the record's epoch for exactly the decoded topic index and partition, with the topic index in range. So the marked offset is one past a consumed record of the record's own topic/partition/epoch."
    ),
    undecided=[
        "'never passes a record of that partition that has been neither acknowledged nor dropped': records of one partition are spread over all processors (UseSpread) and franz-go keeps the highest marked offset; whether a later record finishes first is a schedule, not a contract - NOT decided (and by reading it does not hold)",
        "Start's idByTopic map (topic -> index) is a string-keyed Go map whose contents are not modelled: that every stored pair (t, i) has Topics[i] == t is proved as an oracle on the map update in Start; that the consumer reads the same pair back is map semantics (trusted)",
        "leader epoch -1 (unknown) is outside the quantifier",
    ],
    assumptions=[
        "kgo.Client.MarkCommitOffsets is abstracted; the map literal passed to it is checked through an assertion on the decoded index/partition/offset/epoch just before the call",
        "select/channel receive in consume is abstracted (any case, any fetch)",
    ],
)

prop(
    "C09",
    level="proof",
    design_ref="DESIGN.md section 3, C09",
    groups=[(["./pipeline"], r"^(\(\*RetriableBatcher\)\.Out|\(\*Batch\)\.reset|\(\*Router\)\.(Stop|Fail|IsDeadQueueAvailable|Start))$"),
            (["./fd"], r"^\(\*FileD\)\.getStaticInfo$"),
            (["./plugin/output/elasticsearch", "./pipeline"], r"^\(\*Plugin\)\.(out|Start|Start\$1|send|reportESErrors)$"),
            (["./plugin/output/gelf"], r"^\(\*Plugin\)\.(maintenance|out)$")],
    canaries=[("./plugin/output/gelf", "replay/C09/zz_gelf_maintenance_nil_client_test.go", "TestVerifGelfMaintenanceWithoutClient"),
              ("./pipeline", "replay/C09/zz_replay_c09_test.go", "TestVerifReplayC09"),
              ("./pipeline", "replay/C09/zz_dq_self_feedback_test.go", "TestVerifDeadQueueSelfFeedback"),
              ("./fd", "replay/C09/zz_dq_config_shared_test.go", "TestVerifDeadQueueConfigSharedAcrossPipelines")],
    claim=(
        "RetriableBatcher.Out, for every success/failure sequence of the send function (outFn returns any error or nil on every call; loop invariant, no bound) and every retry count including 0 and negative: "
        "it returns normally only right after a send that returned nil; it gives up at most once, only with a non-negative retry count and only after strictly more retries than configured; "
        "on giving up the error callback receives exactly the batch's events once, and the batch is emptied and marked in-dead-queue iff a dead queue is available, otherwise left untouched so the main output commits it. "
        "Batch.reset empties the batch (frame checked). Router.Fail hands a failed event to the dead queue iff one is configured (never to the main output), and Router.Stop stops the dead queue only after the main output has stopped, so a batch that exhausts its retries during shutdown still finds a dead queue that accepts it. "
        "Sinks: the elasticsearch output's send issues one POST of the whole buffer and returns the request's status and error; reportESErrors decodes exactly the response, counts the failed items and reports an undecodable response as an error; "
        "the GELF output returns connect and send errors to the retry loop and its maintenance closes only an existing client (repaired defect). "
        "NOT part of the claim (open findings, printed as KNOWN-FINDING, their clauses are checked on every run and never assumed): the elasticsearch output maps 400 / 413 and bulk responses with item-level failures to success; Batcher.Stop drops the open batch."
    ),
    undecided=[
        "which of the two batchers (main / dead queue) commits first: an interleaving, not decided (the order in which Router.Stop stops them is under contract)",
        "each output plugin's onError closure forwards every event to Router.Fail exactly once, and its IsDeadQueueAvailable option agrees with the router: under contract for the Elasticsearch output only (C19), per-plugin wiring elsewhere",
        "'not committed while retries are pending' is Out not having returned plus program order in Batcher.work (C08/C01 contracts)",
    ],
    assumptions=[
        "backoff v4.3.0 ExponentialBackOff.NextBackOff/Reset behave as their lib contracts (from the library source: Stop iff MaxElapsedTime != 0 and exceeded)",
        "outFn and onRetryError do not write the RetriableBatcher's options or the batch header (callee clauses: pure)",
        "timer channel receive is abstracted",
    ],
)

prop(
    "C08",
    level="other",
    design_ref="DESIGN.md section 3, C08",
    groups=[(["./pipeline"], r"^(\(\*Batcher\)\.(Add|heartbeat|trySendBatchAndUnlock|getBatch|commitBatch|work|Stop|Start)|\(\*Batch\)\.(append|updateStatus|reset)|\(\*Event\)\.IsChildParentKind)$")],
    script_canaries=["replay/C08/stop_add_race.sh"],
    claim=(
        "Batcher mechanisms proved with monitor (lock) invariants on the real code, for all arrival patterns, event sizes, limits and worker counts: "
        "(1) size: under Batcher.mu the batch being filled is strictly below its count and byte limits (monitor invariant, proved at every Unlock); every batch handed to the workers (oracle on the channel send) is ready, non-empty, "
        "has at most maxSizeCount events and was below maxSizeBytes before its last event; (2) updateStatus is the exact decision table (count / bytes / age / empty), so a non-empty batch older than the flush timeout is ready when the heartbeat looks at it; "
        "(3) sequence numbers: each sent batch takes outSeq and outSeq is incremented under the lock; (4) commitBatch waits until commitSeq equals the batch's number, then - holding seqMu - commits every event of the batch exactly once in index order "
        "(oracle on Controller.Commit) and only then passes the turn on; (5) work commits a batch only after its own send returned (when it has anything to send); (6) after shouldStop, Add adds nothing. "
        "Lock discipline (every access to a protected field with the lock held, lock state equal on loop back edges, invariant re-established at Unlock/Wait) is part of the proof."
    ),
    undecided=[
        "'within the flush timeout plus scheduling slack': real time; only the status rule and the heartbeat's call are proved",
        "Stop while Add is in flight: decided for the send itself (it happens under mu with shouldStop false, Stop closes the channel under mu - one fix came out of it, replayed as a schedule); other interleavings of Stop with the workers are not decided",
        "'every added event is committed exactly once' across batches needs the channel/ownership protocol (a batch is owned by one goroutine at a time): assumed, not proved",
    ],
    assumptions=[
        "channel invariants assumed at receives: freeBatches carries batches made by newBatch (non-negative limits, one set); fullBatches carries what the send oracle requires",
        "a batch taken from a channel is owned by the receiving goroutine (no other goroutine touches it)",
        "OutFn / MaintenanceFn / Controller.Commit do not write Batcher or Batch headers (preserves clauses)",
        "event.Size >= 0",
    ],
    technique="contract-based deductive verification with monitor invariants (govc over go/ssa + SMT)",
)

prop(
    "C06",
    level="proof",
    design_ref="DESIGN.md section 3, C06",
    groups=[(["./plugin/input/file", "./pipeline"], r"^(\(\*worker\)\.work|\(\*Job\)\.seek|\(\*jobProvider\)\.(initJobOffset|maintenanceJob|truncateJob|tryResumeJobAndUnlock|continueJob|doneJob|checkFileWasTruncated))$")],
    claim=(
        "The real (*worker).work (170 lines, five loops) verified in place, for all file contents, all read-buffer sizes >= 1, all max_event_size / cut_off settings, every split of the content into reads of any size "
        "(Read may return any 0 <= n <= len(buf)), every resume offset and any number of rounds (job invariant assumed at hand-out, proved at hand-back): "
        "every In() call receives exactly the next complete line content[ls:P) of the file - ending in its newline, with no earlier newline - tagged with the offset P just after that newline, "
        "and ls advances from newline to newline (so lines are handed over in order, none missed, none twice); an unterminated tail is kept in job.tail with curOffset equal to the descriptor position; "
        "a line is skipped only because the job's skip flag was set or because it is longer than max_event_size with cut-off disabled; with cut-off enabled an over-long line is handed over with its first max_event_size bytes intact and longer than the limit (so the pipeline cuts it), "
        "and neighbours and later offsets are unaffected. Index/slice safety of the whole function is part of the proof."
    ),
    undecided=[
        "lz4-compressed files (the branch redefines what an offset is) are outside the contract's scope (stated in the channel invariant)",
        "concurrent truncation / seek on a job while a worker owns it",
        "Pipeline.checkInputBytes' part of the size rule is proved under C20",
    ],
    assumptions=[
        "os.File.Read contract (callee clause Read): 0 <= n <= len(p) bytes of the file at the descriptor position, n == 0 when an error (incl. EOF) is returned; file content is append-only (no truncation)",
        "channel invariant of jobsChan = job invariant (assumed at receive, proved as precondition of continueJob / processEOF)",
        "controller.In writes only data[0:len(data)]; metadata rendering, counters and logging have no effect on the modelled state",
        "I/O errors end the process (allow-exit)",
    ],
)

_PIPE = ["./pipeline"]

prop(
    "C01",
    level="other",
    design_ref="DESIGN.md section 3, C01",
    groups=[(_PIPE, r"^(\(\*Batcher\)\.(work|commitBatch|trySendBatchAndUnlock)|\(\*RetriableBatcher\)\.Out|\(\*processor\)\.(doActions|processSequence|processEvent|Propagate|Spawn)|\(\*Event\)\.(SetChildKind|SetChildParentKind)|\(\*Pipeline\)\.finalize|\(\*stream\)\.(commit|tryDetach|leave|tryUnblock)|\(\*Router\)\.(Fail|Out|IsDeadQueueAvailable))$")],
    claim=(
        "Each mechanism the commit-frontier property names is a proved contract on the real function: (1) Batcher.work commits a batch only after its own send returned, commitBatch commits in batch-sequence order under seqMu (monitor) and each event once; "
        "(2) doActions finalizes an event at most once, only after discard / collapse / hold, never notifying the input (so dropped, merged or held events never move the input offset), returning it to the pool for discard and collapse but not for hold; "
        "finalize notifies the input iff asked and before the stream's own commit; (3) a stream is released to another processor only when its last taken event is committed (tryDetach: awaySeq == commitSeq) and its commit sequence never decreases; "
        "(4) RetriableBatcher.Out returns only after a successful send or after giving up (C09), and Router.Fail hands a failed event to the dead queue only, Router.Out to the main output only."
    ),
    undecided=[
        "that these mechanisms compose to the frontier property for every interleaving of readers, processors, batch workers and the two batchers: the state spans several locks, an atomic and two channels; single-lock monitor invariants cannot carry it",
        "'every earlier event of the same stream is finished' (per-stream frontier)",
        "a dead-queue batch still buffered while the next main batch commits (two batchers without a common lock) - by reading a real hole, not exhibited by contracts",
    ],
    assumptions=[
        "action plugins' Do, the input's Commit and the output's Out are abstracted (any effect except on the named preserved types)",
        "ownership of batches and events passed through channels / the pool",
    ],
    technique="contract-based deductive verification of the named mechanisms (govc over go/ssa + SMT), monitor invariants for lock-guarded state",
)

prop(
    "C02",
    level="other",
    design_ref="DESIGN.md section 3, C02",
    groups=[(_PIPE, r"^(\(\*stream\)\.(put|get|instantGet|blockGet|attach|commit|tryDetach|leave|tryUnblock)|\(\*streamer\)\.(getStream|joinStream)|\(\*processor\)\.dischargeStream|\(\*Pipeline\)\.(finalize|streamEvent)|\(\*processor\)\.(processEvent|processSequence|Propagate|doActions|Spawn)|\(\*Batcher\)\.(Add|commitBatch))$")],
    claim=(
        "Per-stream order mechanisms proved: stream.put hands out strictly increasing sequence ids in arrival order under the stream lock and appends at the tail; get takes the head (FIFO) and records it as the stream's away event; "
        "after hold/collapse the processor takes the next event from the same stream; Propagate re-injects a held event at the action after the one that held it before the triggering event continues; "
        "Batcher.Add appends under one mutex and commitBatch commits batches in formation order, each event once in index order; finalize is the single exit: a regular event is committed on its stream exactly once and returned to the pool exactly once iff asked, timeout and child events are not accounted."
    ),
    undecided=[
        "that commits of one stream arrive in sequence order when several processors / batch workers are involved (schedules)",
        "quiescence accounting over the whole pipeline ('none unaccounted once idle')",
        "file input's per-stream offset store (provider.commit) - see C03/C07",
        "list shape of the stream queue (first/last/next chain) is not modelled beyond head/tail pointers",
    ],
    assumptions=["as C01"],
    technique="contract-based deductive verification of the named mechanisms (govc over go/ssa + SMT), monitor invariants for lock-guarded state",
)

prop(
    "C04",
    level="other",
    design_ref="DESIGN.md section 3, C04",
    groups=[(_PIPE, r"^(\(\*eventPool\)\.wakeupWaiters|\(\*lowMemoryEventPool\)\.(wakeupWaiters|back|eventsAvailable)|\(\*stream\)\.(put|tryDetach|tryUnblock|blockGet|attach)|\(\*streamer\)\.(makeCharged|makeBlocked|resetBlocked|isBlocked|joinStream)|\(\*streamer\)\.(start|heartbeat)|\(\*processor\)\.(process|dischargeStream|tryMarkBusy|tryResetBusy|start|AddActionPlugin)|newProcessor|\(\*Pipeline\)\.(Start|newProc|initProcs|expandProcs)|\(\*Batch\)\.updateStatus|\(\*Batcher\)\.(heartbeat|work|Start))$")],
    canaries=[("./pipeline", "replay/C04/zz_replay_c04_test.go", "TestVerifReplayC04"),
              ("./pipeline", "replay/C04/zz_stale_heartbeat_snapshot_test.go", "TestVerifStaleHeartbeatSnapshot")],
    claim=(
        "The must-signal / must-flush rules the no-wedge property rests on, as proved per-iteration and per-call contracts: both pool heartbeats broadcast in every iteration in which readers wait and capacity is free (and only then); "
        "low-memory back() releases its unit and then broadcasts; stream.put charges an unowned empty stream and signals a blocked owner exactly once; tryDetach re-charges a released stream that still has events; "
        "updateStatus marks a non-empty batch older than the flush timeout ready, and every heartbeat iteration offers the current batch for sending unless stopping."
    ),
    undecided=[
        "liveness and any time bound: that no signal is lost between a check and a Wait under every interleaving, fairness, bounded finalisation time - outside contract logic",
        "the standard pool's get()/back() CAS ring",
        "tryUnblock's time-out injection (its Panicf guard depends on the ownership protocol)",
    ],
    assumptions=["sync.Cond / atomics behave as their sequential lib contracts"],
    technique="contract-based deductive verification of the named mechanisms (govc over go/ssa + SMT), per-iteration obligations at loop back edges",
)

prop(
    "C05",
    level="other",
    design_ref="DESIGN.md section 3, C05",
    groups=[(_PIPE, r"^(\(\*Pipeline\)\.(In|finalize|streamEvent)|\(\*lowMemoryEventPool\)\.(get|back|inUse)|newEventPool|\(\*Event\)\.reset|\(\*processor\)\.(doActions|processSequence))$")],
    canaries=[("./pipeline", "replay/C05/zz_sample_after_back_test.go", "TestVerifSampleReadsLiveEvent")],
    claim=(
        "Linear ownership accounting proved per function: Pipeline.In takes at most one event from the pool and on every exit path has either streamed it or returned it (held == 0 at every return); "
        "finalize returns a regular event to the pool exactly once iff asked and never for timeout/child events; doActions finalizes at most once; processSequence hands a passed event to the output exactly once; "
        "the low-memory pool's get returns only on the path where this call's own increment stayed within capacity and gives its unit back before every wait, back releases exactly one unit, inUse() is clamped to capacity."
    ),
    undecided=[
        "the standard pool (free1/free2 CAS ring: a lock-free protocol) and 'never owned by two holders' across goroutines",
        "'in-use count returns to exactly zero when idle' (whole-pipeline quiescence)",
        "size-class pool index (bits.Len) is assumed to be within [0,33)",
    ],
    assumptions=["atomics behave as their sequential lib contracts; holders <= capacity follows from the per-call unit accounting by a counting argument stated in DESIGN.md"],
    technique="contract-based deductive verification of the named mechanisms (govc over go/ssa + SMT), ghost ownership counters",
)

prop(
    "C14",
    level="other",
    design_ref="DESIGN.md section 3, C14",
    groups=[(["./pipeline/doif", "./pipeline"], r"^(\(\*logicalNode\)\.Check|NewLogicalNode|NewFieldOpNode|\(\*fieldOpNode\)\.Check|\(\*lenCmpOpNode\)\.Check|\(\*tsCmpOpNode\)\.Check|getNodeBytesSize|getNodeFieldsBytesSize|extractOpValuesFromArr|\(cmpOperation\)\.compare|\(\*checkTypeOpNode\)\.Check|NewCheckTypeOpNode(\$[1-6])?|\(eventData\)\.Get|newCmpOp|NewLenCmpOpNode|NewTsCmpOpNode|\(\*tsCmpOpNode\)\.startUpdater|extractDoIfNode|extractLogicalOpNode|extractFieldOpNode|extractOpValues|extractLengthCmpOpNode|extractTsCmpOpNode|extractCheckTypeOpNode|getAny|get|anyToInt|NewFromMap|\(\*Checker\)\.Check)$"),
            (["./fd"], r"^extractConditions$"),
            (["./pipeline"], r"^(\(\*processor\)\.(isMatch|isMatchOr|isMatchAnd)|\(\*MatchCondition\)\.valueExists)$")],
    canaries=[("./pipeline", "replay/C14/zz_replay_c14_test.go", "TestVerifReplayC14"),
              ("./pipeline/doif", "replay/C14/zz_byte_len_empty_container_test.go", "TestVerifDoIfByteLenEmptyContainer"),
              ("./pipeline/doif", "replay/C14/zz_ts_cmp_range_test.go", "TestVerifDoIfTsCmpOutsideUnixNanoRange"),
              ("./fd", "replay/C14/zz_match_fields_dropped_test.go", "TestVerifMatchFieldsNonStringDropped")],
    claim=(
        "Proved for all operand lists, value lists and events, with each leaf test an uninterpreted deterministic predicate: logical nodes compute exactly or = some operand holds, and = all operands hold, not = negation of its operand "
        "(independent of short-circuiting and operand order; NewLogicalNode guarantees an operand exists); legacy match_fields: valueExists is 'some listed value equals / is a prefix of the value', "
        "isMatchAnd / isMatchOr are exactly 'all / some conditions hold' where a condition holds iff its field exists and its regexp matches (regexp condition) or a listed value matches (list condition) - the documented meaning - "
        "and isMatch dispatches on the mode and applies match_invert; fieldOpNode.Check's contains / prefix / suffix operators return true iff some configured value satisfies the operator on the event data (no value skipped, any order)."
    ),
    undecided=[
        "case-insensitive operators (Unicode case mapping has no SMT theory) and the equal operator's size-bucket map (Go map contents are not modelled)",
        "that the minValLen / maxValLen fast paths agree with the un-shortcut semantics (needs the real meaning of contains/prefix/suffix; only stated for data not shorter than minValLen)",
        "length / timestamp / type-check nodes and the construction of the tree from configuration maps (map[string]any walking)",
    ],
    assumptions=["Node.Check, regexp matching, insane-json Dig/AsString and bytes.Contains/HasPrefix/HasSuffix are deterministic functions of their arguments (uninterpreted)"],
)

prop(
    "C16",
    level="other",
    design_ref="DESIGN.md section 3, C16",
    groups=[(["./plugin/action/throttle"], r"^(rebuildBuckets|\(\*simpleBuckets\)\.(rebuild\$1|add|get|reset)|\(\*inMemoryLimiter\)\.(isAllowed|rebuildBuckets)|\(\*limitersMap\)\.getOrAdd|\(bucketsMeta\)\.timeToBucketID)$"),
            (["./plugin/action/throttle"], r"^(\(\*distributedBuckets\)\.(add|get|reset|isEmpty|getDistrCount|rebuild|rebuild\$1)|\(\*simpleBuckets\)\.rebuild|\(bucketsMeta\)\.actualizeIndex|\(\*inMemoryLimiter\)\.(getDistrData|updateDistribution)|\(\*limitDistributions\)\.(getLimit|size|isEnabled|copy)|\(\*limitDistributionCfg\)\.isEmpty|parseLimitDistribution|\(LimitDistributionConfig\)\.toInternal|\(\*Plugin\)\.isAllowed|\(\*limitersMap\)\.(newLimiter|maintenance)|newBuckets|newBucketsMeta|newSimpleBuckets|newDistributedBucket|newDistributedBuckets|newInMemoryLimiter)$"),
            (["./plugin/action/throttle", "./pipeline"], r"^\(\*rule\)\.isMatch$"),
            (["./plugin/action/throttle"], r"^\(\*Plugin\)\.Start$"),
            (["./xtime"], r"^parseUnixTime$")],
    claim=(
        "Rule selection and distribution (added): Plugin.isAllowed tries the rules in configuration order and asks exactly one limiter - that of the first matching rule and of the event's own throttle key - and passes the event when no rule matches; "
        "getDistrData gives a listed value its own slot and share limit, lets an unlisted value use the default slot while cur+val <= default limit and borrow a listed share only when cur+val <= that share's limit (the one with most room); "
        "distributedBuckets add/get/reset touch exactly one cell / row, its ring shift permutes rows, keeps surviving contents and zeroes freed rows; the constructors build one counter per share plus the default with the rule's own limit and kind; "
        "maintenance deletes a limiter only under the lock and only when it was idle for the expiration time; parseLimitDistribution accepts exactly the valid configurations (ratios in [0,1], pairwise sums <= 1, no empty value list) and keeps the value -> share map in range; "
        "updateDistribution replaces the distribution under the lock and rebuilds the ring exactly when the number of shares changes. "
        "In-memory throttle with simple buckets, for all event times and clock positions (bucket ids are arbitrary integers): rebuildBuckets keeps maxID == minID + count - 1, never moves the window backwards, "
        "resets exactly min(clock advance, count) buckets exactly when the clock moved past the newest bucket, and maps every event time into the retained window (past and future times count against the newest bucket); "
        "the ring shift - through the real append(b[n:], b[:n]...) in both its in-place and reallocating cases - moves bucket i+n to i and zeroes the freed tail, all other counters unchanged; "
        "add / get / reset touch exactly one counter; isAllowed with a negative limit passes everything, otherwise adds first (1 or the event size, to the re-mapped bucket and the selected slot) and passes iff that bucket is within the selected limit."
    ),
    undecided=[
        "the sequence-level statement (per key and bucket, passed <= limit over a whole history) follows from these per-call contracts by induction over calls (DESIGN.md), not machine-checked",
        "limit distributions (getDistrData stealing, parseLimitDistribution rounding of shares) and distributed buckets",
        "rule selection and the per-key limiter map (Go maps / limiter cache): keys never sharing a budget is not decided",
        "concurrent limit updates; redis backend",
    ],
    assumptions=["timeToBucketID is an arbitrary function of the time (uninterpreted)", "the dynamic type behind the buckets interface honours the simpleBuckets contracts"],
)

prop(
    "C19",
    level="other",
    design_ref="DESIGN.md section 3, C19",
    groups=[(["./pipeline"], r"^(\(\*Batch\)\.ForEach|\(\*Event\)\.(reset|Encode))$"),
            (["./plugin/output/elasticsearch"], r"^(\(\*Plugin\)\.(sendSplit|appendIndexName|appendEvent|out|out\$1|Start|Start\$1|send)|appendEscaped|prepareEndpoints)$"),
            (["./plugin/output/http", "./pipeline"], r"^(\(\*Plugin\)\.(sendSplit|out|out\$1)|\(\*(Raw|JSON)Encoder\)\.Encode)$"),
            (["./plugin/output/kafka", "./pipeline"], r"^\(\*Plugin\)\.(out|out\$1|Start|Start\$1)$"),
            (["./plugin/output/gelf"], r"^\(\*Plugin\)\.(formatExtraField|makeTimestampField|out|out\$1|formatEvent|makeExtraFields|makeBaseField|makeLevelField|isBlank)$"),
            (["./plugin/output/splunk"], r"^(\(\*Plugin\)\.(out|out\$1)|parseSplunkError)$"),
            (["./plugin/output/loki"], r"^\(\*Plugin\)\.(out|out\$1|send|isUnixNanoFormat|parseLabels|getCustomHeaders)$"),
            (["./plugin/output/file"], r"^\(\*Plugin\)\.(createNew|out|out\$1|write|sealUp|rename|setNextSealUpTime)$")],
    canaries=[("./plugin/output/http", "replay/C19/zz_raw_encoder_test.go", "TestVerifRawEncoderKeepsEarlierEvents"),
              ("./plugin/output/gelf", "replay/C19/zz_gelf_inf_timestamp_test.go", "TestVerifGelfTimestampIsJSONNumber"),
              ("./plugin/output/elasticsearch", "replay/C19/zz_replay_c19_test.go", "TestVerifReplayC19IndexName"),
              ("./plugin/output/loki", "replay/C19/zz_loki_retry_test.go", "TestVerifLokiRetryAfterFailedSend")],
    claim=(
        "Proved: Batch.ForEach calls the callback for exactly the non-parent events, in index order (per-iteration obligation); Elasticsearch sendSplit and the http output's sendSplit (split_batch), for every pattern of failing / 413 / successful requests (DoTimeout is an arbitrary environment), "
        "sends contiguous ranges data[begin[l]:begin[r]] so that on success the accepted prefix advances exactly from begin[left] to begin[right] - the resent parts tile the batch exactly once - and a single event that is still too large returns the error (recursive calls use the contract); "
        "the ES error callback forwards each event of a failed batch to Router.Fail exactly once in order, and the retry loop's dead-queue flag and retry count are the router's / the configured ones. "
        "Offset table (http and Elasticsearch out): the ForEach callback appends exactly one table entry and one newline-terminated encoding per deliverable event (closure contract: table invariant T(n) -> T(n+1), "
        "begin[n] = old end of the buffer, buffer grows, last byte is a newline; ES appendEvent: action line + document line, each newline-terminated), the end offset is appended after the loop, and the call of sendSplit(0, eventsCount, begin, outBuf) "
        "meets sendSplit's precondition (right < len(begin), entries nondecreasing and within the buffer) - so the proven tiling applies to the table the plugin really builds. "
        "Kafka output: the callback fills record slot i and advances i by one; exactly the first i slots are produced (never a slot left over from an earlier, larger batch). "
        "GELF: every byte formatExtraField appends to an extra-field name is an ASCII letter, digit, '_', '-' or '.', for every event key. "
        "GELF makeTimestampField writes a finite number. ES appendIndexName passes every value read from the event through appendEscaped (ghost counters), and appendEscaped appends only bytes >= 0x20, "
        "each appended quote directly behind an appended backslash, the buffer before it unchanged (quantified loop invariant; backslash parity not stated). "
        "GELF out: payload and name buffer start empty per batch, each deliverable event is formatted once, encoded once and followed by one zero byte, one send of exactly the payload after the walk, nil only after an error-free send; "
        "formatEvent applies the field rules once each in dependency order (extra fields renamed once to '_'+name via formatExtraField, host / short_message / full_message renaming with the configured defaults, blank short_message -> default, level mapping with unknown -> 6). "
        "File out: payload starts empty per batch, each event encoded once and followed by one newline, one Write of exactly the buffer under the read lock (returns only if the whole buffer was written); sealUp: rename, swap under the write lock, close the replaced file afterwards. "
        "Splunk out: the worker buffer is restarted, the batch handed in is walked once, one POST whose body is exactly the buffer as the walk left it, nil only if accepted / 400 / nothing to send; parseSplunkError: error mapping of the HEC answer. "
        "Loki: the callback adds one array element per deliverable event and fills it with a private copy of the event (never sharing nodes with it: guard clause; repaired defect), out walks the batch once and sends once on the root it spawned, "
        "send appends exactly one value line per message in order (timestamp and text from that message's configured fields, k-th encoding is of message k), one stream under the plugin's labels, one application/json POST of exactly the marshalled bytes, nil iff answered 204; "
        "isUnixNanoFormat exact; parseLabels / getCustomHeaders: the sequence of map updates. "
        "Open findings recorded by input (Loki bad timestamp - also as the failing postcondition of out -, GELF retry and duplicate keys) are printed as KNOWN-FINDING."
    ),
    undecided=[
        "document bodies (event.Encode) and the bytes of the file / http / splunk / loki / gelf envelopes: insane-json and encoding/json encoders (third-party), not applicable to contracts on file.d code (what is stated for splunk / loki is which values go where and how often, not the encoded bytes)",
        "out(): begin has one entry per delivered event (closure called through ForEach across packages) and the Kafka record slicing of the shared buffer - not yet under contract",
        "termination of sendSplit's recursion (decreases right-left) is not checked",
    ],
    assumptions=["xhttp.Client.DoTimeout does not touch the plugin's buffers (pure) and accepts the whole body iff it returns nil"],
)

prop(
    "C17",
    level="other",
    design_ref="DESIGN.md section 3, C17",
    groups=[(["./plugin/action/mask"], r"^\(\*Mask\)\.(maskValue|maskSection)$"), (["./cfg"], r"^(VerifyGroupNumbers|isGroupsUnique)$"), (["./cfg/matchrule"], r"^\(\*(Rule|RuleSet)\)\.(Match|match|Prepare)$"),
            (["./plugin/action/mask", "./pipeline"], r"^(addFieldsToTree|compileMasks?|\(\*Mask\)\.checkMatchRules|\(\*Plugin\)\.(Start|traverseTree|processMask|Do|gatherFieldPaths|gatherFieldMasksTree(\$[1-4])?))$")],
    canaries=[("./plugin/action/mask", "replay/C17/zz_replay_c17_test.go", "TestVerifReplayC17Tail"), ("./plugin/action/mask", "replay/C17/zz_cut_to_empty_test.go", "TestVerifCutToEmptyStaysCut"),
              ("./plugin/action/mask", "replay/C17/zz_replay_c17_test.go", "TestVerifReplayC17Order"), ("./plugin/action/mask", "replay/C17/zz_group_order_test.go", "TestVerifMaskGroupOrder")],
    claim=(
        "maskValue under contract against a regexp model that promises only what the library guarantees (every submatch pair is (-1,-1) or 0<=s<=e<=len, nothing about the order of groups): "
        "all index computations on the match vector are in range for validated group numbers, the tail is copied from the end of the last masked section, and the tiling condition "
        "(each copied piece value[prevFinish:curStart] starts where the previous masked section ended) is the slice-bound obligation - proved for every order and nesting of the selected groups (it failed for nested / out-of-order groups until the repair: a group that starts inside what is written already is skipped or clipped). "
        "maskSection: cut appends nothing, replace appends exactly the word, mask appends exactly min(rune count of the section, max_count) asterisks (the rune count being that of src[begin:end], taken once). "
        "VerifyGroupNumbers returns only group numbers within 0..NumSubexp (what maskValue requires). Match rules: the configured inversion is applied to the outcome of the comparison for every value, short ones included. "
        "Field lists: addFieldsToTree runs the leaf callback exactly once per configured path whether or not the nodes existed; traverseTree hands to array element i the node listed for index i or the empty node, decided per element."
    ),
    undecided=[
        "field selection (traverseTree over insane-json trees, process / ignore field lists), applied mark and metrics: third-party tree, not under contract",
        "exact asterisk count equals the rune count (utf8.RuneCount is only bounded here)",
    ],
    assumptions=["regexp.FindAllSubmatchIndex / NumSubexp lib contracts", "group numbers validated by cfg.VerifyGroupNumbers (requires)"],
)

prop(
    "C13",
    level="other",
    design_ref="DESIGN.md section 3, C13",
    groups=[(["./plugin/action/mask"], r"^\(\*Mask\)\.(maskValue|maskSection)$"),
            (["./plugin/input/k8s"], r"^(\(\*MultilineAction\)\.(Do|resetLogBuf)|escapedCutLen)$"),
            (["./plugin/action/join", "./pipeline"], r"^\(\*Plugin\)\.(Do|flush|isNextOK)$"),
            (["./plugin/action/convert_utf8_bytes"], r"^\(\*Plugin\)\.convert$"),
            (["./plugin/action/hash/normalize"], r"^(hasPattern|\(\*tokenizer\)\.(nextToken|processOpenBracket|processCloseBracket|processQuotes)|\(\*tokenNormalizer\)\.normalizeByTokenizer)$"),
            (["./cfg/substitution"], r"^\(\*(CutFilter|TrimToFilter|RegexFilter)\)\.Apply$"),
            (["./cfg/matchrule"], r"^\(\*(Rule|RuleSet)\)\.(Match|match|Prepare)$"),
            (["./cfg"], r"^(VerifyGroupNumbers|isGroupsUnique)$"),
            (["./pipeline"], r"^\(\*processor\)\.(processEvent|doActions)$"),
            (["./metric"], r"truncateLabels$"),
            (["./plugin/action/decode", "./pipeline"], r"^\(\*Plugin\)\.(Do|decodeJson|checkError)$"),
            (["./plugin/action/parse_es", "./pipeline"], r"^\(\*Plugin\)\.Do$"),
            (["./plugin/action/cardinality"], r"^(parseFields|\(\*Plugin\)\.Start)$"),
            (["./plugin/action/modify"], r"^\(\*Plugin\)\.Do$"),
            (["./plugin/action/throttle"], r"^\(\*Plugin\)\.Start$")],
    canaries=[("./plugin/action/mask", "replay/C17/zz_replay_c17_test.go", "TestVerifReplayC17Tail"), ("./plugin/input/k8s", "replay/C13/zz_replay_c13_test.go", "TestVerifReplayC13"),
              ("./pipeline", "replay/C13/zz_timeout_wrong_action_test.go", "TestVerifTimeoutGoesToTheWaitingAction"),
              ("./metric", "replay/C13/zz_label_utf8_test.go", "TestVerifLabelValuesFromEventContent"),
              ("./plugin/action/convert_utf8_bytes", "replay/C13/zz_convert_utf8_alias_test.go", "TestVerifConvertedFieldsKeepTheirValues"),
              ("./plugin/input/k8s", "replay/C13/zz_k8s_cutoff_escape_test.go", "TestVerifK8sCutOffKeepsEscapesWhole"),
              ("./plugin/action/decode", "replay/C13/zz_decode_prefix_test.go", "TestVerifDecodePrefixSurvivesLaterActions"),
              ("./cfg/substitution", "replay/C13/trimto_empty_cutset_test.go", "TestVerifTrimToEmptyCutset"),
              ("./plugin/action/decode", "replay/C13/zz_decode_check_error_test.go", "TestVerifDecodeCheckErrorWithLogging"),
              ("./plugin/action/mask", "replay/C17/zz_group_order_test.go", "TestVerifMaskGroupOrder"),
              ("./plugin/action/decode", "replay/C13/zz_decode_keep_origin_mangled_test.go", "TestVerifDecodeKeepOriginMangled"),
              ("./plugin/action/cardinality", "replay/C13/zz_cardinality_label_collision_test.go", "TestVerifCardinalityLabelCollision"),
              ("./plugin/action/throttle", "replay/C13/zz_throttle_zero_interval_test.go", "TestVerifThrottleZeroIntervalNegativeCount")],
    claim=(
        "No-panic of the index / slice arithmetic on event bytes in the action code brought under contract so far: mask.maskValue and maskSection (every index into the submatch vector and every slice of the value, for all values and all validated group lists), "
        "the k8s multiline action (every slice of the escaped log fragment, for every event content - empty string, non-string value, fragments shorter than the newline marker - under the state invariant 1 <= len(buffer) <= max_event_size-2 which Do itself preserves), "
        "the join action's Do / flush (its two Panicf guards are the only exits; the single-step table is proved under C15), "
        "convert_utf8_bytes' escape-sequence rewriter (every slice of the field value, for every string), the hash action's bracket / quote tokenizer (nextToken, processQuotes, processOpen/CloseBracket and the caller's copy loop: every token lies inside the data and tokens never go backwards, by an inductive invariant over the scan), "
        "the modify action's field filters (cut, trim_to, re: results are sub-slices of the value; group indices within the submatch vector) and the match-rule comparison (prefix / suffix cuts). "
        "The processor hands a stream time-out event only to an action that is waiting (busy at its index, or no action is busy), never to the action that merely returned non-pass last - that one would be called with a nil Root. "
        "Metric label values built from event fields are valid UTF-8 after truncateLabels (prometheus panics otherwise). The decode action's unsafe key-name views lie inside the buffer decodeJson returns, and Do keeps exactly that buffer as event.Buf (rule for ByteToStringUnsafe views: inside the live prefix of a buffer that stays the event's). "
        "Eight fixes (mask tail, k8s multiline, trim_to with an empty cutset, time-out addressed to the wrong action, label values, decode key names, convert_utf8_bytes shared buffer, k8s cut-off inside an escape) and one long-open finding (mask: nested / out-of-order groups) came out of it; the mask finding was repaired later (skip / clip + sorted groups), as were decode's checkError and the unprepared match rule."
    ),
    undecided=[
        "the full statement (27 plugins x every accepted configuration x every JSON event, result still well-formed JSON) lives in insane-json's mutable node graph (third-party): not applicable to contracts on file.d code",
        "rename, json_extract, cardinality, parse_re2 index arithmetic (configuration-sized tables): not under contract; the lexmachine scanner path of the hash normalizer is third-party; max_event_size of 1 or 2 with the k8s multiline action is outside the contract (requires)",
        "stateful sequences of events",
    ],
    assumptions=["as C17"],
)

prop(
    "C07",
    level="other",
    design_ref="DESIGN.md section 3, C07",
    groups=[(["./plugin/input/file"], r"^(\(\*offsetDB\)\.(save|snapshotJobs|parse|parseLine|parseOptionalLine|parseStreams|parseOne|load)|safeSubstring|\(\*jobProvider\)\.saveOffsetsCyclic)$"),
            (["./offset"], r"^(\(\*Offset\)\.(Save|saveToTmp|Load)|NewOffset|\(\*yamlValue\)\.(Load|Save))$")],
    canaries=[("./plugin/input/file", "replay/C07/zz_replay_c07_test.go", "TestVerifReplayC07"),
              ("./plugin/input/file", "replay/C07/zz_empty_stream_test.go", "TestVerifOffsetsEmptyStreamNameRoundTrip"),
              ("./plugin/input/file", "replay/C07/zz_parse_streams_colon_panic_test.go", "TestVerifParseStreamsColonPanic"),
              ("./plugin/input/file", "replay/C07/zz_load_stat_error_test.go", "TestVerifLoadStatError")],
    script_canaries=["replay/C07/strace_save.sh"],
    claim=(
        "Save protocol proved for every failure pattern of open / write / sync / rename (each may fail on any call): both savers (file input's offsetDB.save and the generic offset.Save of journalctl/dmesg) rename the temporary file over the current one "
        "at most once and only after it was created, completely written and synced without error - an unsuccessful write never replaces a good file and the snapshot is made durable first (two fixes came out of this). "
        "Parser: parseLine returns exactly the text between the prefix and the first newline and the rest after it, and fails iff the content is empty / has no newline / lacks the prefix; parseOptionalLine consumes nothing when the prefix is absent; "
        "parseStreams splits a stream line at the writer's separator whatever characters the stream name contains (':' and ': ' included)."
    ),
    undecided=[
        "'at any instant ... a complete snapshot': crash atomicity rests on POSIX rename atomicity and fsync durability (assumed), the quantifier over crash points is not a contract",
        "'never ahead of commits': that the snapshot of each job is its offsets table at one lock instant (Job.mu) is read, not yet under a monitor clause; across jobs the snapshot is not simultaneous",
        "load(save(x)) == x for all tables: the writer is a nested loop of ~20 appends, its grammar is not stated; empty stream names and names containing a newline do not load (by reading) - not decided here",
        "parseStreams on arbitrary garbage (line[pos+2:] past the end) is outside the statement (assume-safe, listed)",
    ],
    assumptions=["os.OpenFile / File.Write / File.Sync / os.Rename may each fail or succeed arbitrarily (callee clauses: pure on the modelled state)", "strings.IndexByte / LastIndexByte lib contracts"],
)

prop(
    "C03",
    level="other",
    design_ref="DESIGN.md section 3, C03",
    groups=[(["./plugin/input/file", "./pipeline"], r"^(\(\*Plugin\)\.PassEvent|\(\*Job\)\.seek|\(\*jobProvider\)\.(commit|truncateJob|initJobOffset|addJob|maintenanceJob|refreshFile|checkFileWasTruncated|tryResumeJobAndUnlock|continueJob|doneJob|maintenanceJobs|deleteJobAndUnlock|initEofInfo|saveOffsetsCyclic)|\(\*eofInfo\)\.(setUnixNanoTimestamp|setOffset)|\(\*offsetDB\)\.parse|getMimeType|\(\*worker\)\.(processEOF|work)|\(\*Pipeline\)\.(streamEvent|In)|sourceIDByStat)$")],
    canaries=[("./plugin/input/file", "replay/C03/zz_truncation_tail_test.go", "TestVerifTruncationDropsStaleTail"),
              ("./plugin/input/file", "replay/C03/zz_rejected_last_line_truncation_test.go", "TestVerifTruncationAfterRejectedLastLine"),
              ("./plugin/input/file", "replay/C03/zz_empty_stream_prefilter_test.go", "TestVerifEmptyStreamPrefilter")],
    claim=(
        "The sequential facts the kill-and-restart argument rests on, each a proved contract: on resume an event is dropped as already delivered only if its stream has a saved offset and the event's offset is not beyond it (PassEvent); "
        "commit stores the event's own offset, under the job lock, strictly larger than the stream's previous offset, and only for regular / split-parent events newer than the last truncation; "
        "the resume position is never beyond a saved stream offset the scan has seen (minimum), and is 0 without saved offsets; truncation is detected exactly when the read position is beyond the file size, "
        "and truncateJob makes every earlier event ignorable, rewinds to 0 and resets every stream offset; the worker keeps curOffset equal to the descriptor position and holds back the unterminated tail (C06 contract)."
    ),
    undecided=[
        "the quantifier over kill instants and the two-run composition (disk state = some earlier committed snapshot, C07; delivered before committed, C01/C02) is a paper argument in DESIGN.md, not machine-checked",
        "rotation by rename, inode reuse, files discovered after start (addJob), symlink handling",
        "that the min-offset scan visits every saved stream (Go map iteration is not modelled)",
    ],
    assumptions=["SliceMap.Get/Set, os.File.Stat/Seek behave as their callee clauses", "initJobOffset runs on a job that is not published yet (exclusive access stands for the job lock)"],
)

prop(
    "C15",
    level="other",
    design_ref="DESIGN.md section 3, C15",
    groups=[(["./plugin/action/join", "./pipeline"], r"^(\(\*Plugin\)\.(Do|flush|isNextOK)|\(\*processor\)\.(processEvent|Propagate|doActions))$"),
            (["./plugin/input/k8s"], r"^(\(\*MultilineAction\)\.(Do|resetLogBuf)|endsWithNewLine)$"),
            (["./plugin/action/join_template", "./plugin/action/join_template/template", "./plugin/action/join_template/ascii"],
             r"^(\(\*Plugin\)\.(Start|firstCheck|nextCheck)|InitTemplate|goPanic(Start|Continue)Check|sharp(Start|Continue)Check|goDataRace(Start|Finish)Check|contains(OnlySpaces|OnlyDigits|GoroutineID|LineNumber|CreatedBy|Call|PanicAddress|At|Arrow|EndOf|Exception)|firstNonSpaceIndex|endsWithIdentifier|equalCaseInsensitive|Is(Space|Digit|HexDigit|Letter|LetterOrUnderscore|LetterOrUnderscoreOrDigit|LowerCaseLetter|UpperCaseLetter)|ToLower)$")],
    canaries=[("./plugin/input/k8s", "replay/C15/zz_k8s_backslash_n_test.go", "TestVerifK8sBackslashNIsNotEndOfLine"),
              ("./plugin/input/k8s", "replay/C15/zz_k8s_cutoff_gap_test.go", "TestVerifK8sCutOffGap"),
              ("./plugin/input/k8s", "replay/C15/zz_k8s_skip_survives_timeout_test.go", "TestVerifK8sSkipSurvivesTimeout")],
    claim=(
        "Single-step contracts of multi-line reassembly, for every value and every classification outcome (start / continue tests are uninterpreted): the join action's Do follows the table "
        "time-out -> flush, Discard; field absent -> flush if joining, Pass; start line -> flush if joining, hold this event, buffer = value, Hold; joining and continuing -> Collapse, buffer += value iff max_event_size == 0 or len(buffer) < it; otherwise flush if joining, Pass; "
        "flush propagates exactly the held event once and leaves the plugin idle; the invariant isJoining == (initial != nil) is preserved; isNextOK applies negate to the regexp path only; "
        "the processor takes the next event after Hold / Collapse from the same stream, and Propagate continues a held event at the next action; the k8s multiline action keeps its buffer invariant and never slices out of range, and its end-of-line test is an escaped line feed (the letter n after an odd run of backslashes: endsWithNewLine, loop invariant over the run)."
    ),
    undecided=[
        "maximal-run semantics over whole event sequences (an induction over the single-step contracts, on paper in DESIGN.md), several processors, stream time-out placement",
        "join_template's matchers; the k8s multiline buffering table beyond safety and the end-of-line test (shouldSplit / skip / cut-off decisions)",
        "that the flushed event's field is set to the buffer goes through insane-json (MutateToString): abstracted",
    ],
    assumptions=["regexp matching and insane-json calls are abstracted (pure / preserving the plugin state)"],
)

prop(
    "C18",
    level="other",
    design_ref="DESIGN.md section 3, C18",
    groups=[(["./cfg"], r"^(ParseFieldSelector|ParseNestedFields|ParseNestedFields\$1)$"),
            (["./plugin/action/keep_fields"], r"^(newFieldPathNode|\(\*Plugin\)\.(Start|Do|traverseFieldsTree))$"),
            (["./plugin/action/remove_fields"], r"^\(\*Plugin\)\.Start$"),
            (["./plugin/action/remove_fields", "./pipeline"], r"^\(\*Plugin\)\.Do$")],
    canaries=[("./cfg", "replay/C18/zz_selector_escape_test.go", "TestVerifSelectorTwoEscapedDots")],
    claim=(
        "Path-list normalisation and the keep_fields buffer protocol under contract: ParseFieldSelector is panic-free for every selector and conserves bytes (every byte of the selector lands in exactly one path element, or is a separator dot, or is an escape marker - nothing collected for an element is lost or repeated; one fix came out of it); ParseNestedFields drops a path exactly when an earlier, not longer path is an element-wise prefix of it "
        "(oracle on slices.Equal: compared as path elements, never as joined strings, after a length sort whose comparator is verified) and keeps it otherwise - listing a path and a descendant equals listing the path alone; "
        "keep_fields.traverseFieldsTree, with a ghost height of the path tree as the recursion's measure, indexes its per-depth delete buffers in range, leaves every buffer from its own depth downwards empty on return "
        "(nothing leaks into the next sibling or the next event) and never changes the number of buffers; a field of the event goes on the delete list only if it is not a child of the path node or it is an inner path node under which the recursive walk found no configured target. "
        "remove_fields.Do looks up exactly the configured (de-duplicated) paths, each once and in order, removes what each lookup returns, calls nothing else on the event and leaves non-object roots alone."
    ),
    undecided=[
        "the tree walk against 'project / subtract exactly these paths' (which fields survive, key order, types): the event is an insane-json graph mutated by Suicide (third-party) - not applicable to contracts on file.d code",
        "that the tree built in Start has height <= the number of buffers (map-based construction; assumed as the height data invariant)",
    ],
    assumptions=["sort.Slice orders by its comparator (callee clause)", "children of a path-tree node are strictly lower (assumed at the map lookup)", "insane-json Dig / Suicide do not touch the plugin's buffers"],
)
