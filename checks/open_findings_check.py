#!/usr/bin/env python3
"""Runs the stored test of every open replay-only finding against /repo (through an overlay) and says whether it still fails."""
import json, os, subprocess, sys, tempfile
sys.path.insert(0, os.path.dirname(__file__))
import run as R
k = json.load(open(R.KNOWN))
wd = tempfile.mkdtemp(prefix="openf_")
bad = 0
for f in k["findings"]:
    if f.get("status") == "open" and f.get("kind") == "replay":
        ok, tail = R.run_canary(f["pkg"], f["canary"], f["test"], wd)
        line = [l for l in tail.splitlines() if "REPLAY-FAIL" in l]
        print(f["property"], f["test"], "STILL FAILS" if not ok else "PASSES (stale)", "|", (line[-1].strip()[:140] if line else tail.strip()[-140:]))
        if ok or not line:
            bad += 1
sys.exit(1 if bad else 0)
