#!/usr/bin/env python3
"""seed_table.py: renders /verif/seeded/MATRIX.json (+ seeded/*/meta.json + seeded/MISSES.json) as the markdown table of DESIGN.md section 12."""
import json, os, re
S = "/verif/seeded"
M = json.load(open(os.path.join(S, "MATRIX.json")))
MISS = json.load(open(os.path.join(S, "MISSES.json"))) if os.path.exists(os.path.join(S, "MISSES.json")) else {}
rows = []
tot = det = own = 0
for k in sorted(M, key=lambda x: (x.split("/")[0], int(x.split("/")[1][1:]))):
    v = M[k]
    meta = json.load(open(os.path.join(S, k, "meta.json")))
    files = sorted(set(l[6:].strip() for l in open(os.path.join(S, k, "patch.diff")) if l.startswith("+++ b/")))
    what = re.sub(r"\s+", " ", (meta.get("breaks") or "")).strip()
    what = what[:150] + ("..." if len(what) > 150 else "")
    if "error" in v:
        rows.append("| %s | %s | %s | n/a | patch no longer applies: the code it changed was repaired by a `fix:` commit |" % (k, ", ".join(files), what))
        continue
    tot += 1
    d = v["detected_by"]
    if d:
        det += 1
        if v["own_property_detects"]:
            own += 1
        by = ", ".join(sorted(d))
        pid = k.split("/")[0]
        first = (d.get(pid) or d[sorted(d)[0]])
        cl = first[0] if first else ""
        rows.append("| %s | %s | %s | %s | `%s` |" % (k, ", ".join(files), what, by, cl.replace("|", "\\|")[:110]))
    else:
        rows.append("| %s | %s | %s | **missed** | %s |" % (k, ", ".join(files), what, MISS.get(k, "not analysed")))
print("| seed | files | change | reported by | failing obligation (first) / why missed |")
print("|---|---|---|---|---|")
print("\n".join(rows))
print()
print("Totals: %d applicable seeded changes, %d reported by some check (%d by the check of their own property), %d missed." % (tot, det, own, tot - det))
