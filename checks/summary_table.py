#!/usr/bin/env python3
"""summary_table.py: one row per property from evidence/*.json, props.py, known_findings.json, selftest/mutants.json, seeded/MATRIX.json
(the table of DESIGN.md section 11)."""
import json, os, sys
sys.path.insert(0, os.path.dirname(os.path.abspath(__file__)))
from props import PROPS
V = "/verif"
known = json.load(open(os.path.join(V, "known_findings.json")))["findings"]
mut = json.load(open(os.path.join(V, "selftest", "mutants.json")))
mx = json.load(open(os.path.join(V, "seeded", "MATRIX.json"))) if os.path.exists(os.path.join(V, "seeded", "MATRIX.json")) else {}
print("| property | level | functions under contract | obligations (quick) | fixed / open findings | must-fail mutants | seeded changes reported / applicable |")
print("|---|---|---|---|---|---|---|")
for pid in sorted(PROPS):
    ev = json.load(open(os.path.join(V, "evidence", pid + ".json")))
    cov = ev["coverage"]
    nf = len(cov.get("functions_under_contract") or [])
    fixed = sum(1 for k in known if k["property"] == pid and k["status"] == "fixed")
    opn = sum(1 for k in known if k["property"] == pid and k["status"] == "open")
    seeds = [k for k in mx if k.startswith(pid + "/") and "error" not in mx[k]]
    rep = sum(1 for k in seeds if mx[k]["detected_by"])
    print("| %s | %s | %d | %d / %d | %d / %d | %d | %d / %d |" % (pid, PROPS[pid]["level"], nf, cov["discharged"], cov["obligations"], fixed, opn, len(mut.get(pid, [])), rep, len(seeds)))
