#!/usr/bin/env python3
"""Prints the markdown table of open replay-only findings from known_findings.json (for DESIGN.md section 9)."""
import json
k = json.load(open("/verif/known_findings.json"))
rows = []
for f in k["findings"]:
    if f.get("status") == "open" and f.get("kind") == "replay":
        rows.append("| %s | %s | `%s` | %s |" % (f["property"], f["what"].replace("|", "\\|"), f["canary"].replace("replay/", ""), f.get("why_not_fixed", "")))
print("| property | what fails | stored test (`replay/`) | why not repaired here |")
print("|---|---|---|---|")
print("\n".join(sorted(rows)))
