#!/usr/bin/env python3
"""seedtest.py <prop> <patch.diff> : apply a seeded change to /repo, run the property's quick check, undo."""
import subprocess, sys
prop, patch = sys.argv[1], sys.argv[2]
st = subprocess.run(["git", "-C", "/repo", "status", "--porcelain"], capture_output=True, text=True).stdout.strip()
if st:
    print("refusing: /repo working tree not clean:\n" + st); sys.exit(2)
subprocess.run(["git", "-C", "/repo", "apply", patch], check=True)
try:
    p = subprocess.run(["python3", "/verif/checks/run.py", prop] + sys.argv[3:], capture_output=True, text=True, cwd="/verif")
    print(p.stdout[-3000:]); print("exit", p.returncode)
finally:
    subprocess.run(["git", "-C", "/repo", "checkout", "--", "."], check=True)
    # evidence must describe the unchanged tree: rewrite it
    subprocess.run(["python3", "/verif/checks/run.py", prop], capture_output=True, text=True, cwd="/verif")
