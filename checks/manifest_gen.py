#!/usr/bin/env python3
"""Regenerates MANIFEST.json from checks/props.py (checks) and properties.jsonl (not_applicable)."""
import json, os, subprocess, sys
HERE = os.path.dirname(os.path.abspath(__file__))
sys.path.insert(0, HERE)
from props import PROPS
from na import NOT_APPLICABLE
VERIF = os.path.dirname(HERE)
m = {
 "version": 1,
 "setup_cmd": "cd /verif && ./setup.sh",
 "hooks": {"guard": "verif", "enable": "-tags verif", "baseline_off_cmd": "cd /repo && go test -vet=off -count=1 -timeout 25m ./...",
           "source_commits": [], "add_only": True},
 "engines": [{"name": "govc", "path": "/verif/govc", "serves_properties": sorted(PROPS),
              "kind_free_text": "contract-based deductive verifier for Go written for this task: VC generation over go/ssa (naive form) of the real functions in /repo, contracts as //@ comments in zz_verif_contracts.go files behind build tag verif, one SMT-LIB query per named obligation, discharged by a portfolio of z3 5.1.0 / z3 4.8.12 / cvc5 1.0"}],
 "checks": [], "not_applicable": [],
 "notes": "Every check rebuilds govc if needed and loads /repo's working tree afresh. Known findings: /verif/known_findings.json. Baseline of discharged clauses: /verif/baseline/clauses.lock.json. DESIGN.md explains the approach, the trusted base and which seeded changes each check catches.",
}
log = subprocess.check_output(["git", "-C", "/repo", "log", "--format=%H %s"]).decode().splitlines()
m["hooks"]["source_commits"] = [l.split()[0] for l in log if l.split(" ", 1)[1].startswith("verif:")]
ids = [json.loads(l)["id"] for l in open(os.path.join(VERIF, "properties.jsonl"))]
for pid in ids:
    if pid in PROPS:
        P = PROPS[pid]
        cat = "proof" if P["level"] == "proof" else "other"
        note = "Assumed/trusted: " + "; ".join(P.get("assumptions", [])) + ". Global trusted base: govc itself, go/ssa, the SMT solvers, int/int64 arithmetic treated as mathematical, nil dereference checked in the functions the evidence lists and assumed away in the others, sequential semantics outside declared monitors."
        if P.get("undecided"):
            note += " NOT decided by this check: " + "; ".join(P["undecided"]) + "."
        m["checks"].append({
            "property_id": pid,
            "quick_cmd": "python3 checks/run.py %s --tier quick" % pid,
            "thorough_cmd": "python3 checks/run.py %s --tier thorough" % pid,
            "evidence_file": "/verif/evidence/%s.json" % pid,
            "replay_cmd_template": "python3 checks/run.py %s --replay {path}" % pid,
            "engine": "govc",
            "level_claimed": {"category": cat, "text": P["claim"], "design_ref": P.get("design_ref", "DESIGN.md section 3")},
            "level_note": note,
            "technique": P.get("technique", "contract-based deductive verification: govc VC generation over go/ssa of the real functions, obligations discharged by z3/cvc5"),
        })
    else:
        m["not_applicable"].append({"property_id": pid, "reason": NOT_APPLICABLE.get(pid, "check not built (yet); see DESIGN.md section 3 for the planned contract and its limits")})
json.dump(m, open(os.path.join(VERIF, "MANIFEST.json"), "w"), indent=1)
print("checks:", [c["property_id"] for c in m["checks"]], "n/a:", len(m["not_applicable"]))
