package mask

// Open finding C17 ("replaces every occurrence of a configured mask's selected groups ... for all mask lists: any regexp
// with any subset and order of its groups"; docs of groups: "numbers of masking groups in expression, zero for mask all
// expression").
// cfg.VerifyGroupNumbers (cfg/regexp_groups.go) checks len(groups) > totalGroups before it looks for group 0. For a
// regexp without capture groups NumSubexp is 0, so groups: [0] - the documented way to mask the whole expression - is
// refused with logger.Fatal("there are many groups") and file.d exits at start. (With at least one capture group,
// e.g. "(secret)\d+", groups [0] is accepted.)

import (
	"fmt"
	"testing"

	"go.uber.org/zap"
	"go.uber.org/zap/zapcore"
)

func TestVerifOpenMaskGroupZeroNoCaptureGroup(t *testing.T) {
	const re, value, want = `^secret\d+$`, "secret123", "*********"

	// Fatal panics instead of os.Exit, so that the test binary survives
	lg := zap.New(zapcore.NewNopCore(), zap.WithFatalHook(zapcore.WriteThenPanic))

	m := Mask{Re: re, Groups: []int{0}}
	var fatal any
	func() {
		defer func() { fatal = recover() }()
		compileMask(&m, lg)
	}()
	if fatal != nil {
		t.Fatalf("REPLAY-FAIL mask {re:%q groups:[0]} is refused at start with logger.Fatal(%q); the docs say zero masks the whole expression, so value %q must become %q", re, fmt.Sprint(fatal), value, want)
	}
	out, applied := m.maskValue([]byte(value), nil)
	if !applied || string(out) != want {
		t.Fatalf("REPLAY-FAIL mask {re:%q groups:[0]} on %q gave %q (applied=%v), want %q", re, value, out, applied, want)
	}
}
