package mask

// Replay canary (C17 / C13): selected groups that are nested, or listed against their order in the text, used to make
// maskValue slice with low > high (panic on the processor goroutine).  A compiled mask walks the groups in text order,
// masks every selected group once, and a group nested in one already masked adds nothing.

import (
	"testing"

	"go.uber.org/zap"
)

func TestVerifMaskGroupOrder(t *testing.T) {
	for _, tc := range []struct {
		re     string
		groups []int
		in     string
		want   string
	}{
		{`(a(b)c)`, []int{1, 2}, "xabcy", "x***y"},
		{`(a(b)c)`, []int{2, 1}, "xabcy", "x***y"},
		{`(a)-(b)`, []int{2, 1}, "a-b", "*-*"},
		{`(a)-(b)`, []int{1, 2}, "a-b", "*-*"},
		{`(a(b))(c)`, []int{3, 2, 1}, "abc", "***"},
	} {
		func() {
			defer func() {
				if r := recover(); r != nil {
					t.Errorf("REPLAY-FAIL re=%q groups=%v value=%q: panic: %v", tc.re, tc.groups, tc.in, r)
				}
			}()
			m := Mask{Re: tc.re, Groups: append([]int(nil), tc.groups...)}
			compileMask(&m, zap.NewNop())
			out, _ := m.maskValue([]byte(tc.in), nil)
			if string(out) != tc.want {
				t.Errorf("REPLAY-FAIL re=%q groups=%v value=%q: masked %q, want %q", tc.re, tc.groups, tc.in, out, tc.want)
			}
		}()
	}
}
