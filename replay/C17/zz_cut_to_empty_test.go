package mask

// Replay canary (C17: "the matched secret never leaves the host"): a cut-mode mask that removes the WHOLE value,
// followed by any other regexp mask.  processMask used len(sourceBuf) == 0 as its "value not copied yet" marker,
// so after the value had been cut to empty the next mask copied the ORIGINAL value again and the node was
// rewritten with it: the secret was back (and the applied mark was still set).

import (
	"testing"

	"github.com/ozontech/file.d/pipeline"
	"github.com/ozontech/file.d/test"
	insaneJSON "github.com/ozontech/insane-json"
)

func TestVerifCutToEmptyStaysCut(t *testing.T) {
	for _, c := range []struct{ second, want string }{
		{`(zzz)`, `{"a":""}`},   // second mask does not match: the value must stay cut
		{`(\d+)`, `{"a":""}`},   // second mask would match the original: it must see the cut value
	} {
		root, err := insaneJSON.DecodeString(`{"a":"secret123"}`)
		if err != nil {
			t.Fatal(err)
		}
		event := &pipeline.Event{Root: root}
		var plugin Plugin
		config := test.NewConfig(&Config{Masks: []Mask{
			{Re: `^(secret\d+)$`, Groups: []int{1}, CutValues: true},
			{Re: c.second, Groups: []int{1}},
		}}, nil)
		plugin.Start(config, test.NewEmptyActionPluginParams())
		plugin.Do(event)
		if got := event.Root.EncodeToString(); got != c.want {
			t.Errorf("REPLAY-FAIL second mask %s: event is %s, want %s (the secret was cut by the first mask)", c.second, got, c.want)
		}
		insaneJSON.Release(root)
	}
}
