package mask

// Replays for C13 / C17 (mask.maskValue).
//  - TestVerifReplayC17Tail: an optional or alternated selected group that did not
//    participate in the last match made maskValue slice value[-1:] (fixed).
//  - TestVerifReplayC17Order: KNOWN FINDING (open) - selected groups that are nested
//    or listed in descending text order make maskValue slice with low > high.

import (
	"regexp"
	"testing"
)

func replayMask(t *testing.T, name, re string, groups []int, value string) {
	t.Helper()
	defer func() {
		if r := recover(); r != nil {
			t.Errorf("REPLAY-FAIL %s: re=%q groups=%v value=%q: panic: %v", name, re, groups, value, r)
		}
	}()
	m := Mask{Re_: regexp.MustCompile(re), Groups: groups, mode: modeMask}
	out, _ := m.maskValue([]byte(value), nil)
	_ = out
}

func TestVerifReplayC17Tail(t *testing.T) {
	replayMask(t, "optional group", `(a)(b)?`, []int{1, 2}, "xay")
	replayMask(t, "alternation", `(a)|(b)`, []int{1, 2}, "xa")
}

func TestVerifReplayC17Order(t *testing.T) {
	replayMask(t, "nested groups", `(a(b)c)`, []int{1, 2}, "abc")
	replayMask(t, "descending groups", `(a)-(b)`, []int{2, 1}, "a-b")
}
