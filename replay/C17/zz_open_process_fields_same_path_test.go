package mask

// Open finding C17 ("replaces every occurrence of a configured mask's selected groups in every processed string ...
// per-mask process/ignore field lists over nested objects"; docs of process_fields: "If name of some field contained in
// this list then all nested fields will be processed (even if they are not listed)").
// All mask-specific lists share one field tree (field_masks_node.go). With mask0 process_fields [a] and mask1
// process_fields [a.b], tree node a gets the child b, so traverseTree no longer treats a as a leaf: under a it descends
// to child b (whose processMasks holds only mask1) or to emptyFMNode for any other key. processMask looks only at the
// reached node, never at its ancestors, so mask0 is applied to neither a.b nor a.c and the secret leaves unmasked.

import (
	"testing"

	"github.com/ozontech/file.d/pipeline"
	"github.com/ozontech/file.d/test"
	insaneJSON "github.com/ozontech/insane-json"
)

func TestVerifOpenMaskProcessFieldsSamePath(t *testing.T) {
	const in = `{"a":{"b":"sec pub","c":"sec pub"}}`
	const want = `{"a":{"b":"*** ***","c":"*** pub"}}`

	root, err := insaneJSON.DecodeString(in)
	if err != nil {
		t.Fatal(err)
	}
	defer insaneJSON.Release(root)

	var plugin Plugin
	config := test.NewConfig(&Config{
		Masks: []Mask{
			{Re: "(sec)", Groups: []int{0}, ProcessFields: []string{"a"}},
			{Re: "(pub)", Groups: []int{0}, ProcessFields: []string{"a.b"}},
		},
	}, nil)
	plugin.Start(config, test.NewEmptyActionPluginParams())
	plugin.Do(&pipeline.Event{Root: root})

	if got := root.EncodeToString(); got != want {
		t.Fatalf("REPLAY-FAIL masks [{re:(sec) groups:[0] process_fields:[a]} {re:(pub) groups:[0] process_fields:[a.b]}] on %s gave %s, want %s: mask sec lists a, so every nested field of a must be processed by it, but it is applied to neither a.b nor a.c", in, got, want)
	}
}
