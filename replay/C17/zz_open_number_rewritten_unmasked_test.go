package mask

// Open finding C17 ("every byte outside those groups, ... and the document structure are unchanged. The applied-mark
// field and metrics are set exactly when some mask matched").
// Mask.maskValue (mask_struct.go) returns applied=true as soon as the regexp has any match, also when none of the
// selected groups took part in it (index -1, skipped). processMask then sets shouldUpdateValue and calls
// curNode.MutateToString: a number value is turned into a string although no byte was masked, and the applied mark is
// set.

import (
	"testing"

	"github.com/ozontech/file.d/pipeline"
	"github.com/ozontech/file.d/test"
	insaneJSON "github.com/ozontech/insane-json"
)

func TestVerifOpenMaskNumberRewrittenUnmasked(t *testing.T) {
	const in = `{"n":123}` // "1(x)?" matches "1", but group 1 does not participate: there is nothing to mask
	root, err := insaneJSON.DecodeString(in)
	if err != nil {
		t.Fatal(err)
	}
	defer insaneJSON.Release(root)

	var plugin Plugin
	config := test.NewConfig(&Config{
		MaskAppliedField: "applied",
		MaskAppliedValue: "yes",
		Masks:            []Mask{{Re: "1(x)?", Groups: []int{1}}},
	}, nil)
	plugin.Start(config, test.NewEmptyActionPluginParams())
	plugin.Do(&pipeline.Event{Root: root})

	if got := root.EncodeToString(); got != in {
		t.Fatalf("REPLAY-FAIL mask {re:\"1(x)?\" groups:[1]} with mask_applied_field=applied on %s gave %s: group 1 did not take part in the match and nothing was masked, yet the number became a string and the applied mark is set; want the event unchanged", in, got)
	}
}
