package mask

// Open finding C17 ("the applied-mark field and metrics are set exactly when some mask matched"; "the matched secret
// never leaves the host").
// processMask (mask.go) runs the regexp only when mask.Re != "" && len(mask.Groups) > 0. A mask with re set and groups
// omitted skips that block and falls through to the "applied" bookkeeping meant for match_rules-only masks: the regexp
// is never evaluated, nothing is masked, and yet the mask counts as applied for every non-empty string / number value,
// including values the regexp does not match at all.

import (
	"testing"

	"github.com/ozontech/file.d/pipeline"
	"github.com/ozontech/file.d/test"
	insaneJSON "github.com/ozontech/insane-json"
)

func TestVerifOpenMaskReWithoutGroupsApplied(t *testing.T) {
	const in = `{"b":"nothing"}` // the regexp "sec" does not match any value of the event
	root, err := insaneJSON.DecodeString(in)
	if err != nil {
		t.Fatal(err)
	}
	defer insaneJSON.Release(root)

	var plugin Plugin
	config := test.NewConfig(&Config{
		MaskAppliedField: "applied",
		MaskAppliedValue: "yes",
		Masks:            []Mask{{Re: "sec"}},
	}, nil)
	plugin.Start(config, test.NewEmptyActionPluginParams())
	plugin.Do(&pipeline.Event{Root: root})

	if got := root.EncodeToString(); got != in {
		t.Fatalf("REPLAY-FAIL mask {re:sec} (groups omitted) with mask_applied_field=applied on %s gave %s: the regexp matches nothing in the event, yet the applied mark is set; the property demands the mark exactly when some mask matched", in, got)
	}
}
