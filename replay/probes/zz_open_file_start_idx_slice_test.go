package file

// Open finding (found while putting plugin/output/file under contract for C19; it is a crash at start-up):
// getStartIdx cuts the sequence number out of every file name matching "<dir>/<name>_*_*<ext>" with
//   file[len(name)+1 : len(file)-len(ext)-len(layout)-1]
// i.e. it assumes that the formatted time is exactly as long as the layout string.  That does not hold for a
// stray file matching the glob, nor for the plugin's own sealed files when time_layout has a variable-width
// element ("January", "Monday", "2006-1-2" ...): the slice bounds are inverted or negative and Start panics.

import (
	"os"
	"path/filepath"
	"testing"

	"go.uber.org/zap"
)

func startIdx(t *testing.T, layout, existing string) (idx int) {
	dir := t.TempDir()
	if err := os.WriteFile(filepath.Join(dir, existing), []byte("x\n"), 0o644); err != nil {
		t.Fatalf("setup: %v", err)
	}
	p := &Plugin{logger: zap.NewNop().Sugar(), config: &Config{Layout: layout}, targetDir: dir + "/", fileName: "log", fileExtension: ".log"}
	defer func() {
		if r := recover(); r != nil {
			t.Fatalf("REPLAY-FAIL file output getStartIdx panics with %q in the target dir (time_layout %q): %v", existing, layout, r)
		}
	}()
	return p.getStartIdx()
}

// a file sealed by this plugin itself in May with time_layout "January-02" (sealUp: name_idx_<time.Format(layout)>ext)
func TestVerifOpenFileStartIdxOwnSealedFile(t *testing.T) {
	startIdx(t, "January-02", "log_0_May-07.log")
}

// a stray file that matches the glob log_*_*.log, default layout
func TestVerifOpenFileStartIdxStrayFile(t *testing.T) {
	startIdx(t, "01-02-2006_15:04:05", "log_1_x.log")
}
