// Probe against the UNMODIFIED code (not a mutant demo). Copy into plugin/action/join/ and run
//   go test -vet=off -count=1 -run TestProbeTwoJoins ./plugin/action/join/
// Observed on the unmodified worktree: "commit offsets: [10 30 20]" -> FAIL.
//
// Two join actions in a row. E1 starts a join in both. E2 ends the first join: join0.flush ->
// Propagate(E1) -> processSequence(E1) -> join1 HOLDS E1 -> processEvent sees a busy action and
// calls stream.blockGet() *inside* Propagate, i.e. while E2 is still in the middle of join0.Do.
// The nested loop takes E3 from the stream, runs it through all actions and sends it out; only then
// the stack unwinds and E2 goes on. One stream, read order 10,20,30, committed 10,30,20.
package join

import (
	"sync"
	"testing"
	"time"

	"github.com/ozontech/file.d/cfg"
	"github.com/ozontech/file.d/pipeline"
	"github.com/ozontech/file.d/test"
)

func TestProbeTwoJoins(t *testing.T) {
	c0 := test.NewConfig(&Config{Field: "a", Start: cfg.Regexp(`/^S/`), Continue: cfg.Regexp(`/^c/`)}, nil)
	c1 := test.NewConfig(&Config{Field: "b", Start: cfg.Regexp(`/^S/`), Continue: cfg.Regexp(`/^c/`)}, nil)
	actions := append(
		test.NewActionPluginStaticInfo(factory, c0, pipeline.MatchModeAnd, nil, false),
		test.NewActionPluginStaticInfo(factory, c1, pipeline.MatchModeAnd, nil, false)...,
	)
	p, input, _ := test.NewPipelineMock(actions, "short_event_timeout")

	mu := sync.Mutex{}
	var offs []int64
	input.SetCommitFn(func(e *pipeline.Event) {
		mu.Lock()
		offs = append(offs, e.Offset)
		mu.Unlock()
	})

	input.In(1, "f", test.NewOffset(10), []byte(`{"a":"S1","b":"S1"}`))
	input.In(1, "f", test.NewOffset(20), []byte(`{"a":"x","b":"x"}`))
	input.In(1, "f", test.NewOffset(30), []byte(`{"a":"y","b":"y"}`))

	time.Sleep(1500 * time.Millisecond)
	p.Stop()
	mu.Lock()
	defer mu.Unlock()
	t.Logf("commit offsets: %v", offs)
	for i := 1; i < len(offs); i++ {
		if offs[i] <= offs[i-1] {
			t.Errorf("out of order: %v", offs)
		}
	}
	if len(offs) != 3 {
		t.Errorf("want 3 commits got %d", len(offs))
	}
}
