package file

import (
	"os"
	"path/filepath"
	"sync"
	"testing"
	"time"

	"github.com/ozontech/file.d/metric"
	"github.com/ozontech/file.d/pipeline"
	"github.com/prometheus/client_golang/prometheus"
	"go.uber.org/atomic"
	"go.uber.org/zap"
)

// isNotFileBeingWritten reports "being written" for a file nobody writes: it looks for the letter w anywhere
// in lsof's output, and the NAME column carries the path (file.d's own read-only descriptor is listed).
func TestVerifLsofFalsePositive(t *testing.T) {
	base := t.TempDir() // /tmp/TestVerifLsofFalsePositiveNNN/001 : no letter w
	for _, dir := range []string{"app", "web"} {
		p := filepath.Join(base, dir, "a.log.lz4")
		if err := os.MkdirAll(filepath.Dir(p), 0o755); err != nil {
			t.Fatal(err)
		}
		if err := os.WriteFile(p, []byte("x"), 0o644); err != nil {
			t.Fatal(err)
		}
		f, err := os.Open(p) // read-only, as file.d holds it
		if err != nil {
			t.Fatal(err)
		}
		got := isNotFileBeingWritten(p)
		f.Close()
		t.Logf("path %s: beingWritten=%v", p, got)
		if got {
			t.Errorf("%s is open read-only only, but is reported as being written", p)
		}
	}
}

// A worker that meets an lz4 file somebody still writes leaves its main loop for good (break inside the job
// loop): the jobs behind it in the channel are never served by this worker and the lz4 job stays not-done.
func TestVerifLz4InProgressEndsTheReader(t *testing.T) {
	dir := t.TempDir()
	lz := filepath.Join(dir, "a.log.lz4")
	if err := os.WriteFile(lz, []byte{}, 0o644); err != nil {
		t.Fatal(err)
	}
	wr, err := os.OpenFile(lz, os.O_WRONLY|os.O_APPEND, 0o644) // a real writer
	if err != nil {
		t.Fatal(err)
	}
	defer wr.Close()
	lzf, _ := os.Open(lz)
	plain := filepath.Join(dir, "b.log")
	if err := os.WriteFile(plain, []byte("abc\n"), 0o644); err != nil {
		t.Fatal(err)
	}
	pf, _ := os.Open(plain)

	mk := func(f *os.File, mt string, id pipeline.SourceID) *Job {
		return &Job{file: f, mimeType: mt, isCompressed: isCompressed(mt), sourceID: id, filename: f.Name(), shouldSkip: *atomic.NewBool(false), mu: &sync.Mutex{}}
	}
	j1 := mk(lzf, "application/x-lz4", 1)
	j2 := mk(pf, "application/octet-stream", 2)

	ctl := metric.NewCtl("test", prometheus.NewRegistry(), 0, 0)
	metrics := newMetricCollection(ctl.RegisterCounter("w1", "h"), ctl.RegisterCounter("w2", "h"), ctl.RegisterGauge("w3", "h"), ctl.RegisterGauge("w4", "h"))
	jp := NewJobProvider(&Config{}, metrics, zap.NewNop().Sugar())
	jp.jobsChan = make(chan *Job, 3)
	jp.jobs = map[pipeline.SourceID]*Job{1: j1, 2: j2}
	jp.jobsDone.Store(0)
	jp.jobsChan <- j1
	jp.jobsChan <- j2
	jp.jobsChan <- nil

	in := inputerMock{}
	done := make(chan struct{})
	go func() {
		(&worker{maxEventSize: 1024}).work(&in, jp, 1024, zap.NewNop().Sugar())
		close(done)
	}()
	select {
	case <-done:
	case <-time.After(5 * time.Second):
		t.Fatal("worker did not return")
	}
	t.Logf("delivered=%q left in channel=%d lz4 job done=%v", in.gotData, len(jp.jobsChan), j1.isDone)
	if len(in.gotData) != 1 || in.gotData[0] != "abc\n" {
		t.Errorf("the plain job queued behind the lz4 job was not read: delivered %q, %d entries left in the channel", in.gotData, len(jp.jobsChan))
	}
}
