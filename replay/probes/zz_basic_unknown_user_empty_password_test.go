package http

import (
	"encoding/base64"
	"net/http"
	"net/http/httptest"
	"strings"
	"testing"

	"github.com/ozontech/file.d/test"
)

func TestVerifOpenHTTPBasicUnknownUserEmptyPassword(t *testing.T) {
	conf := &Config{
		Auth: AuthConfig{
			Strategy: "basic",
			Header:   "Authorization",
			Secrets:  map[string]string{"ozon": "zonzon"},
		},
		Address: "off",
	}
	pipelineMock, _, _ := test.NewPipelineMock(nil, "passive")
	inputInfo := getInputInfo(conf)
	pipelineMock.SetInput(inputInfo)
	pipelineMock.Start()
	defer pipelineMock.Stop()
	p := inputInfo.Plugin.(*Plugin)

	req := httptest.NewRequest(http.MethodPost, "/", strings.NewReader("{\"a\":1}\n"))
	req.Header.Set("Authorization", "Basic "+base64.StdEncoding.EncodeToString([]byte("ghost:")))
	rec := httptest.NewRecorder()
	func() {
		defer func() {
			if r := recover(); r != nil {
				t.Errorf("ServeHTTP panicked: %v", r)
			}
		}()
		p.ServeHTTP(rec, req)
	}()
	t.Logf("status %d body %q", rec.Code, rec.Body.String())
	if rec.Code != http.StatusUnauthorized {
		t.Errorf("unknown user with empty password: status %d, want 401", rec.Code)
	}
}
