package file

import (
	"os"
	"path/filepath"
	"sync"
	"testing"
	"time"

	"github.com/ozontech/file.d/metric"
	"github.com/ozontech/file.d/pipeline"
	"github.com/ozontech/file.d/plugin/output/devnull"
	"github.com/ozontech/file.d/test"
	"github.com/prometheus/client_golang/prometheus"
	"github.com/stretchr/testify/require"
	"go.uber.org/atomic"
	"go.uber.org/zap"
)

// Probe A: partial line left in job.tail survives a truncation.
func TestProbeTailAcrossTruncation(t *testing.T) {
	dir := t.TempDir()
	logFile := filepath.Join(dir, "a.log")
	require.NoError(t, os.WriteFile(logFile, []byte(`{"m":"complete old line"}`+"\n"+`{"m":"partial old line without newl`), 0o600))

	ctl := metric.NewCtl("probe", prometheus.NewRegistry(), time.Minute, 0)
	metrics := newMetricCollection(
		ctl.RegisterCounter("c1", "help"),
		ctl.RegisterCounter("c2", "help"),
		ctl.RegisterGauge("g1", "help"),
		ctl.RegisterGauge("g2", "help"),
	)
	jp := NewJobProvider(&Config{MaxFiles: 16, OffsetsFile: filepath.Join(dir, "o.yaml")}, metrics, zap.NewNop().Sugar())

	f, err := os.Open(logFile)
	require.NoError(t, err)
	stat, err := f.Stat()
	require.NoError(t, err)
	jp.addJob(f, stat, logFile, "")
	job := jp.jobs[sourceIDByStat(stat, "")]

	in := &inputerMock{}
	w := &worker{}
	runOnce := func() {
		jp.jobsChan <- nil
		w.work(in, jp, 4096, zap.NewNop().Sugar())
	}
	runOnce()
	t.Logf("after first read: delivered=%q tail=%q", in.gotData, job.tail)

	// truncate + write new complete line
	require.NoError(t, os.WriteFile(logFile, []byte(`{"m":"new"}`+"\n"), 0o600))

	// maintenance notices size != offset and resumes
	require.Equal(t, maintenanceResultResumed, jp.maintenanceJob(job))
	runOnce()
	t.Logf("after truncation detection: curOffset=%d tail=%q", job.curOffset, job.tail)
	require.Equal(t, maintenanceResultResumed, jp.maintenanceJob(job))
	runOnce()
	t.Logf("delivered=%q", in.gotData)
	require.Contains(t, in.gotData, `{"m":"new"}`+"\n")
}

// Probe B: last line rejected by the pipeline => lastEventSeq = 0 => truncation does not ignore in-flight events.
func TestProbeTruncationAfterRejectedLine(t *testing.T) {
	cleanUp()
	setupDirs()
	offsetFiles = make(map[string]string)

	info := getInputInfo()
	cfg := info.Config.(*Config)
	cfg.MaintenanceInterval_ = time.Second

	p := test.NewPipeline(nil, "passive")
	p.SetInput(info)
	anyPlugin, config := devnull.Factory()
	out := anyPlugin.(*devnull.Plugin)
	p.SetOutput(&pipeline.OutputPluginInfo{
		PluginStaticInfo:  &pipeline.PluginStaticInfo{Config: config},
		PluginRuntimeInfo: &pipeline.PluginRuntimeInfo{Plugin: out},
	})

	release := make(chan struct{})
	first := atomic.NewBool(true)
	mu := sync.Mutex{}
	got := []string{}
	out.SetOutFn(func(e *pipeline.Event) {
		mu.Lock()
		got = append(got, e.Root.EncodeToString())
		mu.Unlock()
		if first.CAS(true, false) {
			<-release
		}
	})
	p.Start()

	file := createTempFile()
	addString(file, `{"m":"old-1-xxxxxxxxxxxxxxxxxxxxxxxxxxxxxxxxxxxxxx"}`, true, false)
	addString(file, `{"m":"old-2-xxxxxxxxxxxxxxxxxxxxxxxxxxxxxxxxxxxxxx"}`, true, false)
	addString(file, ``, true, true) // blank line, rejected by pipeline.In

	plugin := p.GetInput().(*Plugin)
	var job *Job
	waitFor := func(what string, cond func() bool) {
		deadline := time.Now().Add(10 * time.Second)
		for !cond() {
			if time.Now().After(deadline) {
				t.Fatalf("timeout waiting for %s", what)
			}
			time.Sleep(10 * time.Millisecond)
		}
	}
	waitFor("job done", func() bool {
		plugin.jobProvider.jobsMu.RLock()
		defer plugin.jobProvider.jobsMu.RUnlock()
		for _, j := range plugin.jobProvider.jobs {
			j.mu.Lock()
			done := j.isDone && j.curOffset > 0
			j.mu.Unlock()
			if done {
				job = j
				return true
			}
		}
		return false
	})
	t.Logf("lastEventSeq=%d", job.lastEventSeq)

	// pause maintenance-driven re-read of the new content until old commits land:
	truncateFile(file)
	addString(file, `{"m":"new-1"}`, true, true)

	waitFor("truncation detected", func() bool {
		job.mu.Lock()
		defer job.mu.Unlock()
		return job.curOffset == 0 || job.ignoreEventsLE != 0
	})
	job.mu.Lock()
	t.Logf("ignoreEventsLE=%d offsets=%v", job.ignoreEventsLE, job.offsets)
	job.mu.Unlock()
	close(release)

	time.Sleep(4 * time.Second)
	p.Stop()
	mu.Lock()
	defer mu.Unlock()
	t.Logf("delivered=%q", got)
	t.Logf("offsets file: %s", getContent(cfg.OffsetsFile))
	require.Contains(t, got, `{"m":"new-1"}`)
}
