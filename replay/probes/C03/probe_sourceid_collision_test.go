package file

import (
	"io/fs"
	"syscall"
	"testing"
	"time"
)

type probeStat struct{ ino uint64 }

func (s probeStat) Name() string       { return "x" }
func (s probeStat) Size() int64        { return 0 }
func (s probeStat) Mode() fs.FileMode  { return 0o600 }
func (s probeStat) ModTime() time.Time { return time.Time{} }
func (s probeStat) IsDir() bool        { return false }
func (s probeStat) Sys() any           { return &syscall.Stat_t{Ino: s.ino} }

func TestProbeSourceIDCollision(t *testing.T) {
	n := 0
	for i := uint64(1); i < 200; i++ {
		a := sourceIDByStat(probeStat{i}, "")
		b := sourceIDByStat(probeStat{i + 1<<31}, "")
		if a == b {
			n++
			if n <= 3 {
				t.Logf("collision: inode %d and %d -> source id %d", i, i+1<<31, a)
			}
		}
	}
	t.Logf("%d of 199 pairs (i, i+2^31) collide", n)
}
