package file

import (
	"os"
	"path/filepath"
	"sync"
	"testing"

	"github.com/ozontech/file.d/metric"
	"github.com/ozontech/file.d/pipeline"
	"github.com/prometheus/client_golang/prometheus"
	"go.uber.org/atomic"
	"go.uber.org/zap"
)

// A file rotated by rename keeps its job (same inode).  After the rename notification gave the job the new name,
// maintenance "corrects" the name with filepath.Dir(name)+stat.Name() (no separator, and stat.Name() of an *os.File is
// the name it was opened with), walks the name up to "/app.log" in a few rounds, fails to open that and deletes the job
// although the rotated file exists, is fully read and may still be appended to by its writer.
func TestVerifRenamedFileJobSurvivesMaintenance(t *testing.T) {
	dir := filepath.Join(t.TempDir(), "logs")
	if err := os.MkdirAll(dir, 0o755); err != nil {
		t.Fatal(err)
	}
	p := filepath.Join(dir, "app.log")
	if err := os.WriteFile(p, []byte("aaaa\n"), 0o644); err != nil {
		t.Fatal(err)
	}
	f, err := os.Open(p)
	if err != nil {
		t.Fatal(err)
	}
	st, _ := f.Stat()
	id := sourceIDByStat(st, "")
	job := &Job{file: f, inode: getInode(st), sourceID: id, filename: p, isDone: true, shouldSkip: *atomic.NewBool(false), mu: &sync.Mutex{}}
	job.seek(5, 0, "test") // everything read, parked at EOF

	ctl := metric.NewCtl("test", prometheus.NewRegistry(), 0, 0)
	metrics := newMetricCollection(ctl.RegisterCounter("w1", "h"), ctl.RegisterCounter("w2", "h"), ctl.RegisterGauge("w3", "h"), ctl.RegisterGauge("w4", "h"))
	jp := NewJobProvider(&Config{}, metrics, zap.NewNop().Sugar())
	jp.jobsChan = make(chan *Job, 8)
	jp.jobs = map[pipeline.SourceID]*Job{id: job}
	jp.jobsDone.Store(1)

	// rotation by rename + the notification for the new name
	p1 := p + ".1"
	if err := os.Rename(p, p1); err != nil {
		t.Fatal(err)
	}
	st1, _ := os.Stat(p1)
	jp.refreshFile(st1, p1, "", false)
	if got := <-jp.jobsChan; got != job {
		t.Fatal("job not resumed")
	}
	jp.doneJob(job) // the worker found nothing new and parked it again
	if job.filename != p1 {
		t.Fatalf("filename after the notification: %s", job.filename)
	}

	for round := 1; round <= 6; round++ {
		res := jp.maintenanceJob(job)
		_, has := jp.jobs[id]
		t.Logf("round %d: result=%d filename=%q job in table=%v", round, res, job.filename, has)
		if !has {
			if _, err := os.Stat(p1); err == nil {
				t.Fatalf("round %d: job of the rotated file %s deleted although the file exists (last name tried: %q)", round, p1, job.filename)
			}
		}
	}
	if job.filename != p1 {
		t.Errorf("job.filename = %q, want %q", job.filename, p1)
	}
}
