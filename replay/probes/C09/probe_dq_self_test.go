package pipeline

import (
	"context"
	"errors"
	"sync"
	"sync/atomic"
	"testing"
	"time"

	"github.com/ozontech/file.d/metric"
	"github.com/prometheus/client_golang/prometheus"
)

type probeCtl struct {
	mu      sync.Mutex
	commits int
}

func (c *probeCtl) Commit(*Event) { c.mu.Lock(); c.commits++; c.mu.Unlock() }
func (c *probeCtl) Error(string)  {}

type probeOut struct {
	name    string
	workers int
	batcher *RetriableBatcher
	sends   atomic.Int32
	errs    atomic.Int32
}

func (p *probeOut) Start(_ AnyConfig, params *OutputPluginParams) {
	router := params.Router
	opts := BatcherOptions{
		PipelineName: "probe", OutputType: p.name, Controller: params.Controller,
		Workers: p.workers, BatchSizeCount: 1, FlushTimeout: 20 * time.Millisecond,
		MetricCtl: metric.NewCtl("", prometheus.NewRegistry(), time.Minute, 0),
	}
	p.batcher = NewRetriableBatcher(&opts,
		func(*WorkerData, *Batch) error { p.sends.Add(1); return errors.New("fail") },
		BackoffOpts{MinRetention: time.Millisecond, Multiplier: 2, AttemptNum: 0, IsDeadQueueAvailable: router.IsDeadQueueAvailable()},
		func(_ error, events []*Event) {
			p.errs.Add(1)
			for i := range events {
				router.Fail(events[i])
			}
		})
	p.batcher.Start(context.Background())
}
func (p *probeOut) Stop()        { p.batcher.Stop() }
func (p *probeOut) Out(e *Event) { p.batcher.Add(e) }

func probeRun(t *testing.T, dqWorkers int) {
	ctl := &probeCtl{}
	mainOut := &probeOut{name: "main", workers: 1}
	dq := &probeOut{name: "dq", workers: dqWorkers}
	r := NewRouter()
	r.SetOutput(&OutputPluginInfo{PluginStaticInfo: &PluginStaticInfo{}, PluginRuntimeInfo: &PluginRuntimeInfo{Plugin: mainOut}})
	r.SetDeadQueueOutput(&OutputPluginInfo{PluginStaticInfo: &PluginStaticInfo{}, PluginRuntimeInfo: &PluginRuntimeInfo{Plugin: dq}})
	r.Start(&OutputPluginParams{Controller: ctl})
	r.Out(&Event{SeqID: 1, Size: 1})
	time.Sleep(1500 * time.Millisecond)
	s1 := dq.sends.Load()
	time.Sleep(500 * time.Millisecond)
	s2 := dq.sends.Load()
	ctl.mu.Lock()
	c := ctl.commits
	ctl.mu.Unlock()
	t.Logf("dqWorkers=%d: main sends=%d errs=%d; dq sends after1.5s=%d after2s=%d dq give-ups=%d; commits=%d",
		dqWorkers, mainOut.sends.Load(), mainOut.errs.Load(), s1, s2, dq.errs.Load(), c)
	stopped := make(chan struct{})
	go func() { r.Stop(); close(stopped) }()
	select {
	case <-stopped:
		t.Logf("router stopped")
	case <-time.After(3 * time.Second):
		t.Logf("router.Stop HANGS")
	}
}

func TestProbeDQSelf1(t *testing.T) { probeRun(t, 1) }
func TestProbeDQSelf4(t *testing.T) { probeRun(t, 4) }
