package fd

import (
	"testing"

	"github.com/ozontech/file.d/pipeline"
)

func TestProbeTwoPipelinesSameDQType(t *testing.T) {
	f := &FileD{plugins: seedM3Registry()}
	a := seedM3PipelineConfig(t, `{"output": {"type": "seed_out", "endpoint": "a", "deadqueue": {"type": "seed_dq", "target_file": "/tmp/a.dead"}}}`)
	b := seedM3PipelineConfig(t, `{"output": {"type": "seed_out", "endpoint": "b", "deadqueue": {"type": "seed_dq", "target_file": "/tmp/b.dead"}}}`)
	infoA, err := f.getStaticInfo(a, pipeline.PluginKindOutput, nil)
	if err != nil {
		t.Fatal(err)
	}
	infoB, err := f.getStaticInfo(b, pipeline.PluginKindOutput, nil)
	if err != nil {
		t.Fatal(err)
	}
	t.Logf("A dq target=%s, B dq target=%s, same pointer=%v",
		infoA.DeadQueueInfo.Config.(*seedM3DQConfig).TargetFile,
		infoB.DeadQueueInfo.Config.(*seedM3DQConfig).TargetFile,
		infoA.DeadQueueInfo == infoB.DeadQueueInfo)
	if infoA.DeadQueueInfo.Config.(*seedM3DQConfig).TargetFile != "/tmp/a.dead" {
		t.Errorf("pipeline A's dead queue config was overwritten by pipeline B's")
	}
}
