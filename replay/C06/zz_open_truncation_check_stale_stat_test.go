package file

// Open finding C06 ("exactly the complete newline-terminated lines of the file, in order, each once per pass").
// watcher.notify takes os.Lstat(filename) first and hands that stat to processNotification -> refreshFile ->
// checkFileWasTruncated(job, stat.Size()), which compares the size of THEN with the read position of NOW.
// If the file grows and a worker reads the new bytes in between, position > stale size, the job is
// "truncated" although the file never shrank, and all lines are delivered again with the same offsets.
// The interleaving is placed by hand: Lstat, then append + worker pass, then refreshFile with that stat.

import (
	"fmt"
	"os"
	"path/filepath"
	"reflect"
	"sync"
	"testing"
	"time"

	"github.com/ozontech/file.d/metric"
	"github.com/ozontech/file.d/pipeline"
	"github.com/ozontech/file.d/pipeline/metadata"
	"github.com/prometheus/client_golang/prometheus"
	"go.uber.org/atomic"
	"go.uber.org/zap"
)

type verifStaleStatInputer struct {
	mu     sync.Mutex
	got    []string // "data@offset"
	seq    uint64
	onCall func(n int)
}

func (i *verifStaleStatInputer) IncReadOps()                         {}
func (i *verifStaleStatInputer) IncMaxEventSizeExceeded(_ ...string) {}
func (i *verifStaleStatInputer) In(_ pipeline.SourceID, _ string, off pipeline.Offsets, data []byte, _ bool, _ metadata.MetaData) uint64 {
	cur := reflect.ValueOf(off).FieldByName("current").Int()
	i.mu.Lock()
	i.got = append(i.got, fmt.Sprintf("%q@%d", data, cur))
	i.seq++
	n, seq := len(i.got), i.seq
	i.mu.Unlock()
	if i.onCall != nil {
		i.onCall(n)
	}
	return seq
}

func TestVerifOpenTruncationCheckStaleStat(t *testing.T) {
	path := filepath.Join(t.TempDir(), "a.log")
	if err := os.WriteFile(path, []byte("aaaa\n"), 0o644); err != nil {
		t.Fatal(err)
	}
	appendTo := func(s string) {
		f, err := os.OpenFile(path, os.O_APPEND|os.O_WRONLY, 0o644)
		if err != nil {
			t.Fatal(err)
		}
		if _, err = f.WriteString(s); err != nil {
			t.Fatal(err)
		}
		_ = f.Close()
	}
	f, err := os.Open(path)
	if err != nil {
		t.Fatal(err)
	}
	defer f.Close()
	stat, err := os.Lstat(path)
	if err != nil {
		t.Fatal(err)
	}
	sourceID := sourceIDByStat(stat, "")

	job := &Job{
		file:       f,
		inode:      getInode(stat),
		sourceID:   sourceID,
		filename:   path,
		shouldSkip: *atomic.NewBool(false),
		offsets:    pipeline.SliceMap{},
		mu:         &sync.Mutex{},
	}
	ctl := metric.NewCtl("test", prometheus.NewRegistry(), 0, 0)
	metrics := newMetricCollection(
		ctl.RegisterCounter("worker1", "help_test"),
		ctl.RegisterCounter("worker2", "help_test"),
		ctl.RegisterGauge("worker3", "help_test"),
		ctl.RegisterGauge("worker4", "help_test"),
	)
	jp := NewJobProvider(&Config{}, metrics, zap.NewNop().Sugar())
	jp.jobsChan = make(chan *Job, 4)
	jp.jobs = map[pipeline.SourceID]*Job{sourceID: job}

	in := &verifStaleStatInputer{}
	w := &worker{}
	logger := zap.NewNop().Sugar()
	pass := func() {
		jp.jobsChan <- nil
		w.work(in, jp, 1024, logger)
	}
	jp.jobsChan <- job // queued when the job was added

	// watcher goroutine, write event for "aaaa\n": watcher.notify has done its os.Lstat (size 5) ...
	staleStat, err := os.Lstat(path)
	if err != nil {
		t.Fatal(err)
	}
	// ... meanwhile the application appends the next line and a worker reads the file to EOF (position 10)
	appendTo("bbbb\n")
	pass()
	time.Sleep(20 * time.Millisecond)
	// ... and now the notification goes on: processNotification -> refreshFile(stat of before, isWrite)
	jp.refreshFile(staleStat, path, "", true)
	job.mu.Lock()
	curAfter := job.curOffset
	job.mu.Unlock()
	if len(jp.jobsChan) == 1 { // the job was resumed
		pass()
	}
	// the write event of the second append, complete
	st, err := os.Lstat(path)
	if err != nil {
		t.Fatal(err)
	}
	jp.refreshFile(st, path, "", true)
	if len(jp.jobsChan) == 1 {
		pass()
	}

	want := []string{`"aaaa\n"@5`, `"bbbb\n"@10`}
	in.mu.Lock()
	got := append([]string(nil), in.got...)
	in.mu.Unlock()
	if !reflect.DeepEqual(got, want) {
		t.Errorf("REPLAY-FAIL file \"aaaa\\n\"; notify takes Lstat (size %d); \"bbbb\\n\" is appended and the worker reads to offset 10; refreshFile runs with the stale stat: job.curOffset after it = %d (want 10, the file never shrank), In received (data@offset) %v, want each line once %v",
			staleStat.Size(), curAfter, got, want)
	}
}
