package file

// Open finding C06 ("exactly the complete newline-terminated lines of the file, in order, each once per pass,
// tagged with the byte offset just after its newline").
// The watcher goroutine's write notification (refreshFile -> checkFileWasTruncated) runs without job.mu and
// whether or not a worker is in the middle of a pass over the job.  It calls job.seek(0, SeekCurrent), which
// overwrites job.curOffset with the fd position (already advanced by the worker's read); the worker then does
// job.curOffset += readTotal, so the bytes of that read are counted twice (20 for a 10-byte file).  When the
// same notification then resumes the finished job (second half of refreshFile, no new seek), the next pass
// starts at 20, reads nothing, processEOF sees 20 > size 10, "truncates" the job, and the whole file is
// delivered again with the next write.  The interleaving is placed by hand: the check runs while the worker
// is inside its first In call, the resume right after the pass.

import (
	"fmt"
	"os"
	"path/filepath"
	"reflect"
	"sync"
	"testing"
	"time"

	"github.com/ozontech/file.d/metric"
	"github.com/ozontech/file.d/pipeline"
	"github.com/ozontech/file.d/pipeline/metadata"
	"github.com/prometheus/client_golang/prometheus"
	"go.uber.org/atomic"
	"go.uber.org/zap"
)

type verifMidPassInputer struct {
	mu     sync.Mutex
	got    []string // "data@offset"
	seq    uint64
	onCall func(n int)
}

func (i *verifMidPassInputer) IncReadOps()                         {}
func (i *verifMidPassInputer) IncMaxEventSizeExceeded(_ ...string) {}
func (i *verifMidPassInputer) In(_ pipeline.SourceID, _ string, off pipeline.Offsets, data []byte, _ bool, _ metadata.MetaData) uint64 {
	cur := reflect.ValueOf(off).FieldByName("current").Int()
	i.mu.Lock()
	i.got = append(i.got, fmt.Sprintf("%q@%d", data, cur))
	i.seq++
	n, seq := len(i.got), i.seq
	i.mu.Unlock()
	if i.onCall != nil {
		i.onCall(n)
	}
	return seq
}

func TestVerifOpenTruncationCheckMidPass(t *testing.T) {
	path := filepath.Join(t.TempDir(), "a.log")
	if err := os.WriteFile(path, []byte("aaaa\nbbbb\n"), 0o644); err != nil {
		t.Fatal(err)
	}
	appendTo := func(s string) {
		f, err := os.OpenFile(path, os.O_APPEND|os.O_WRONLY, 0o644)
		if err != nil {
			t.Fatal(err)
		}
		if _, err = f.WriteString(s); err != nil {
			t.Fatal(err)
		}
		_ = f.Close()
	}
	f, err := os.Open(path)
	if err != nil {
		t.Fatal(err)
	}
	defer f.Close()
	stat, err := os.Lstat(path)
	if err != nil {
		t.Fatal(err)
	}
	sourceID := sourceIDByStat(stat, "")

	job := &Job{
		file:       f,
		inode:      getInode(stat),
		sourceID:   sourceID,
		filename:   path,
		shouldSkip: *atomic.NewBool(false),
		offsets:    pipeline.SliceMap{},
		mu:         &sync.Mutex{},
	}
	ctl := metric.NewCtl("test", prometheus.NewRegistry(), 0, 0)
	metrics := newMetricCollection(
		ctl.RegisterCounter("worker1", "help_test"),
		ctl.RegisterCounter("worker2", "help_test"),
		ctl.RegisterGauge("worker3", "help_test"),
		ctl.RegisterGauge("worker4", "help_test"),
	)
	jp := NewJobProvider(&Config{}, metrics, zap.NewNop().Sugar())
	jp.jobsChan = make(chan *Job, 4)
	jp.jobs = map[pipeline.SourceID]*Job{sourceID: job}

	// what the watcher goroutine does on a write event for this file (watcher.notify -> processNotification)
	writeNotification := func() {
		st, err := os.Lstat(path)
		if err != nil {
			t.Error(err)
			return
		}
		jp.refreshFile(st, path, "", true)
	}

	in := &verifMidPassInputer{}
	in.onCall = func(n int) {
		if n != 1 {
			return
		}
		// A write notification (watcher goroutine, refreshFile) reaches its first statement,
		// checkFileWasTruncated(job, stat.Size()), while the worker is in the middle of its first pass.
		// (It takes no job lock today; wait a bounded time in case a repair makes it wait for the pass.)
		done := make(chan struct{})
		go func() {
			defer close(done)
			st, err := os.Lstat(path)
			if err != nil {
				t.Error(err)
				return
			}
			jp.checkFileWasTruncated(job, st.Size())
		}()
		select {
		case <-done:
		case <-time.After(500 * time.Millisecond):
		}
	}
	w := &worker{}
	logger := zap.NewNop().Sugar()
	pass := func() {
		jp.jobsChan <- nil
		w.work(in, jp, 1024, logger)
	}

	// pass 1: the job was queued when it was added; the worker reads the 10 bytes to EOF and marks the job done
	jp.jobsChan <- job
	pass()
	time.Sleep(20 * time.Millisecond)

	// ... and the same notification goes on with the rest of refreshFile: lock, tryResumeJobAndUnlock.
	// The job is done by now, so it is resumed (nothing re-reads the file position on this path); pass 2.
	job.mu.Lock()
	jp.tryResumeJobAndUnlock(job, path)
	resumed := len(jp.jobsChan) == 1
	pass()
	job.mu.Lock()
	curAfter2 := job.curOffset
	job.mu.Unlock()

	// the application appends a line: a complete write notification, then pass 3
	appendTo("cc\n")
	writeNotification()
	pass()

	want := []string{`"aaaa\n"@5`, `"bbbb\n"@10`, `"cc\n"@13`}
	in.mu.Lock()
	got := append([]string(nil), in.got...)
	in.mu.Unlock()
	if !reflect.DeepEqual(got, want) {
		t.Errorf("REPLAY-FAIL file \"aaaa\\nbbbb\\n\" (10 bytes) read in one pass; a write notification runs checkFileWasTruncated (no job.mu) during the first In and resumes the job after the pass (resumed=%v); then \"cc\\n\" is appended (notification + pass): In received (data@offset) %v, want each line once with its end offset %v; job.curOffset after the empty second pass = %d (want 10: the mid-pass seek overwrote curOffset and the read was counted twice, 20 > size 10 made processEOF truncate the job)",
			resumed, got, want, curAfter2)
	}
}
