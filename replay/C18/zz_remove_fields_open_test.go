package remove_fields

// Replay inputs of the two OPEN findings of C18 in remove_fields (recorded in known_findings.json, not repaired:
// both would change what the action does for existing configurations).

import (
	"testing"

	"github.com/ozontech/file.d/cfg"
	"github.com/ozontech/file.d/pipeline"
	insaneJSON "github.com/ozontech/insane-json"
)

func verifRemove(t *testing.T, fields []string, in string) string {
	paths, err := cfg.ParseNestedFields(fields)
	if err != nil {
		t.Fatal(err)
	}
	p := &Plugin{config: &Config{Fields: fields}, fieldPaths: paths}
	root := insaneJSON.Spawn()
	defer insaneJSON.Release(root)
	if err := root.DecodeString(in); err != nil {
		t.Fatal(err)
	}
	p.Do(&pipeline.Event{Root: root})
	return root.EncodeToString()
}

// "paths that ... cross a non-object are ignored": a path segment that is a number indexes into an array.
func TestVerifRemoveFieldsPathThroughArray(t *testing.T) {
	in := `{"a":[{"b":1,"c":2},7],"d":3}`
	if got := verifRemove(t, []string{"a.0.b"}, in); got != in {
		t.Errorf("REPLAY-FAIL remove_fields [a.0.b] on %s gives %s: the path crosses an array and must be ignored", in, got)
	}
	if got := verifRemove(t, []string{"a.1"}, in); got != in {
		t.Errorf("REPLAY-FAIL remove_fields [a.1] on %s gives %s: the path crosses an array and must be ignored", in, got)
	}
}

// "key order of survivors ... is untouched": removing a field moves the last field of the object into its place.
func TestVerifRemoveFieldsKeepsKeyOrder(t *testing.T) {
	in := `{"a":1,"b":2,"c":3,"d":4}`
	if got, want := verifRemove(t, []string{"a"}, in), `{"b":2,"c":3,"d":4}`; got != want {
		t.Errorf("REPLAY-FAIL remove_fields [a] on %s gives %s, want %s", in, got, want)
	}
}
