package cfg

// Replay canary (C18): a field selector whose one path element contains two escaped dots written as "..".
// The second ".." overwrote the already collected prefix instead of extending it, so "a..b..c" named the
// key "b.c" instead of "a.b.c" - remove_fields / keep_fields then act on a different key than the configured one.

import (
	"reflect"
	"testing"
)

func TestVerifSelectorTwoEscapedDots(t *testing.T) {
	for _, c := range []struct {
		sel  string
		want []string
	}{
		{"a..b..c", []string{"a.b.c"}},
		{"x.a..b..c.y", []string{"x", "a.b.c", "y"}},
		{`a\.b..c`, []string{"a.b.c"}},
		{"a.b..c", []string{"a", "b.c"}},
		{`a\.b\.c`, []string{"a.b.c"}},
	} {
		if got := ParseFieldSelector(c.sel); !reflect.DeepEqual(got, c.want) {
			t.Errorf("REPLAY-FAIL ParseFieldSelector(%q) = %q, want %q", c.sel, got, c.want)
		}
	}
}
