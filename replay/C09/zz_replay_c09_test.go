package pipeline

// Replay canary for C09: with retry (AttemptNum) 10 and a retention so long that the
// library's default MaxElapsedTime (15 min) is exceeded by the first pause, the
// pinned tree gave up after a single send - zero retries instead of >= 10.

import (
	"errors"
	"testing"
	"time"

	"github.com/ozontech/file.d/metric"
	"github.com/prometheus/client_golang/prometheus"
)

func TestVerifReplayC09(t *testing.T) {
	calls := 0
	gaveUp := false
	rb := NewRetriableBatcher(
		&BatcherOptions{MetricCtl: metric.NewCtl("", prometheus.NewRegistry(), time.Minute, 0)},
		func(*WorkerData, *Batch) error {
			calls++
			if calls > 3 {
				return nil // stop the experiment: three sends are enough to show retrying
			}
			return errors.New("send failed")
		},
		BackoffOpts{MinRetention: time.Hour, Multiplier: 1, AttemptNum: 10},
		func(error, []*Event) { gaveUp = true },
	)
	done := make(chan struct{})
	go func() {
		var wd WorkerData
		rb.Out(&wd, nil)
		close(done)
	}()
	select {
	case <-done:
	case <-time.After(300 * time.Millisecond):
		// still retrying (sleeping for the retention): that is the correct behaviour
		return
	}
	if gaveUp && calls-1 < 10 {
		t.Errorf("REPLAY-FAIL gave up after %d send(s) = %d retries, configured retry=10", calls, calls-1)
	}
}
