// Open finding replay for C09 ("a failed batch goes exactly one way"), clauses "every event of the batch is
// handed exactly once to the dead-queue output ... and is then committed by the dead queue alone; otherwise
// the failure is reported once through the error callback and the events are committed exactly once".
// Mechanism: Router.Start (pipeline/router.go) starts the dead-queue plugin with the SAME params, i.e. the
// same Router. A dead-queue plugin built like every real batching output (BackoffOpts.IsDeadQueueAvailable =
// router.IsDeadQueueAvailable(), onError -> router.Fail) therefore believes it has a dead queue: when its own
// send fails it calls Router.Fail -> r.deadQueue.Out = its own Batcher.Add, from inside its own worker, then
// empties the batch. 1 worker: Add blocks in getBatch on <-freeBatches holding b.mu (the only batch is the one
// in the worker's hands): no commit, Stop hangs. >1 workers: the event circulates forever, never committed.
package pipeline

import (
	"context"
	"errors"
	"sync"
	"sync/atomic"
	"testing"
	"time"

	"github.com/ozontech/file.d/metric"
	"github.com/prometheus/client_golang/prometheus"
)

type vopenC09Ctl struct {
	mu      sync.Mutex
	commits int
}

func (c *vopenC09Ctl) Commit(*Event) { c.mu.Lock(); c.commits++; c.mu.Unlock() }
func (c *vopenC09Ctl) Error(string)  {}
func (c *vopenC09Ctl) n() int        { c.mu.Lock(); defer c.mu.Unlock(); return c.commits }

// vopenC09Out mirrors the Start/onError code of the kafka, http, splunk, loki and elasticsearch outputs.
// Every send fails.
type vopenC09Out struct {
	name    string
	workers int
	batcher *RetriableBatcher
	handed  atomic.Int32 // Out calls = events handed to this output
	sends   atomic.Int32 // send attempts
	giveUps atomic.Int32 // error-callback invocations (retries exhausted)
}

func (p *vopenC09Out) Start(_ AnyConfig, params *OutputPluginParams) {
	router := params.Router
	opts := BatcherOptions{
		PipelineName: "vopen_c09", OutputType: p.name, Controller: params.Controller,
		Workers: p.workers, BatchSizeCount: 1, FlushTimeout: 20 * time.Millisecond,
		MetricCtl: metric.NewCtl("", prometheus.NewRegistry(), time.Minute, 0),
	}
	p.batcher = NewRetriableBatcher(&opts,
		func(*WorkerData, *Batch) error { p.sends.Add(1); return errors.New("send failed") },
		BackoffOpts{MinRetention: time.Millisecond, Multiplier: 2, AttemptNum: 0, IsDeadQueueAvailable: router.IsDeadQueueAvailable()},
		func(_ error, events []*Event) {
			p.giveUps.Add(1)
			for i := range events {
				router.Fail(events[i])
			}
		})
	p.batcher.Start(context.Background())
}
func (p *vopenC09Out) Stop()        { p.batcher.Stop() }
func (p *vopenC09Out) Out(e *Event) { p.handed.Add(1); p.batcher.Add(e) }

func vopenC09Run(t *testing.T, dqWorkers int) {
	ctl := &vopenC09Ctl{}
	mainOut := &vopenC09Out{name: "main", workers: 1}
	dq := &vopenC09Out{name: "dq", workers: dqWorkers}
	r := NewRouter()
	r.SetOutput(&OutputPluginInfo{PluginStaticInfo: &PluginStaticInfo{}, PluginRuntimeInfo: &PluginRuntimeInfo{Plugin: mainOut}})
	r.SetDeadQueueOutput(&OutputPluginInfo{PluginStaticInfo: &PluginStaticInfo{}, PluginRuntimeInfo: &PluginRuntimeInfo{Plugin: dq}})
	r.Start(&OutputPluginParams{Controller: ctl})

	// one event; the main output fails it (AttemptNum 0), the dead queue fails it too (AttemptNum 0)
	r.Out(&Event{SeqID: 1, Offset: 1, Size: 1})

	// it must end: committed once. Wait for that (at most 1s), then a little longer to catch repeats.
	deadline := time.Now().Add(time.Second)
	for ctl.n() == 0 && time.Now().Before(deadline) {
		time.Sleep(time.Millisecond)
	}
	time.Sleep(100 * time.Millisecond)
	commits, handed, sends, giveUps := ctl.n(), dq.handed.Load(), dq.sends.Load(), dq.giveUps.Load()

	stopped := make(chan struct{})
	go func() { r.Stop(); close(stopped) }()
	stopOK := true
	select {
	case <-stopped:
	case <-time.After(1500 * time.Millisecond):
		stopOK = false
	}

	if handed != 1 || commits != 1 || giveUps != 1 {
		t.Errorf("REPLAY-FAIL 1 event, main output and dead-queue output (%d worker(s)) both always fail, AttemptNum=0: the event was handed to the dead queue %d times (dq send attempts=%d, dq give-ups=%d) and committed %d times; want handed to the dead queue exactly once, its failure reported once, the event committed exactly once",
			dqWorkers, handed, sends, giveUps, commits)
	}
	if !stopOK {
		t.Errorf("REPLAY-FAIL 1 event, main output and dead-queue output (%d worker(s)) both always fail: Router.Stop did not return within 1.5s (dead-queue worker blocked adding the event to its own batcher); want Stop to return",
			dqWorkers)
	}
}

func TestVerifDeadQueueSelfFeedback(t *testing.T) {
	vopenC09Run(t, 1)
	vopenC09Run(t, 4)
}
