package gelf

// Open finding (found while putting plugin/output/gelf under contract for C19; it is a crash, C13-like):
// maintenance closes data.gelf without looking whether the worker has a client.  out() leaves data.gelf == nil
// when the connect fails and after a failed send; maintenance itself sets it to nil.  The batcher's worker calls
// the maintenance function after a batch once reconnect_interval has passed (pipeline/batch.go work): with the
// endpoint down for that long - or two maintenance runs without a successful out() in between - close() is called
// on the nil *client and dereferences it: the worker goroutine panics and the process dies.

import (
	"testing"

	"github.com/ozontech/file.d/pipeline"
	"github.com/ozontech/file.d/test"
	insaneJSON "github.com/ozontech/insane-json"
)

func TestVerifGelfMaintenanceWithoutClient(t *testing.T) {
	config := &Config{Endpoint: "127.0.0.1:1"} // nothing listens there
	test.NewConfig(config, map[string]int{"gomaxprocs": 1, "capacity": 64})
	p := &Plugin{}
	p.Start(config, test.NewEmptyOutputPluginParams())

	root, err := insaneJSON.DecodeString(`{"message":"m"}`)
	if err != nil {
		t.Fatalf("setup: %v", err)
	}
	batch := pipeline.NewPreparedBatch([]*pipeline.Event{{Root: root}})
	var wd pipeline.WorkerData
	if err := p.out(&wd, batch); err == nil {
		t.Fatalf("setup: the connect to %s should fail", config.Endpoint)
	}

	defer func() {
		if r := recover(); r != nil {
			t.Fatalf("REPLAY-FAIL gelf maintenance after a failed connect panics: %v (data.gelf is nil and is closed unconditionally)", r)
		}
	}()
	p.maintenance(&wd) // what Batcher.work does after the batch once reconnect_interval has passed
}
