// Open finding replay for C09 ("a failed batch goes exactly one way"), clause "handed exactly once to the
// dead-queue output when one is configured" - i.e. to the dead queue configured for THAT pipeline's output.
// Mechanism: fd/file.d.go getStaticInfo fetches the dead-queue plugin's *PluginStaticInfo from the shared
// registry (f.plugins.Get) and writes `deadqueueInfo.Config = config` into that shared entry instead of a
// copy; the same pointer becomes infoCopy.DeadQueueInfo of every pipeline. startPipelines sets up all
// pipelines before starting any, so the dead-queue config of the pipeline set up last wins for all of them.
package fd

import (
	"testing"

	"github.com/bitly/go-simplejson"
	"github.com/ozontech/file.d/cfg"
	"github.com/ozontech/file.d/pipeline"
)

type vopenC09OutConfig struct {
	Endpoint string `json:"endpoint"`
}

type vopenC09DQConfig struct {
	TargetFile string `json:"target_file"`
}

type vopenC09Plugin struct{}

func (*vopenC09Plugin) Start(pipeline.AnyConfig, *pipeline.OutputPluginParams) {}
func (*vopenC09Plugin) Stop()                                                  {}
func (*vopenC09Plugin) Out(*pipeline.Event)                                    {}

func vopenC09PipelineConfig(t *testing.T, raw string) *cfg.PipelineConfig {
	t.Helper()
	j, err := simplejson.NewJson([]byte(raw))
	if err != nil {
		t.Fatal(err)
	}
	return &cfg.PipelineConfig{Raw: j}
}

func TestVerifDeadQueueConfigSharedAcrossPipelines(t *testing.T) {
	// a private registry (not DefaultPluginRegistry) with one main output type and one dead-queue output type
	reg := &PluginRegistry{plugins: make(map[string]*pipeline.PluginStaticInfo)}
	reg.RegisterOutput(&pipeline.PluginStaticInfo{
		Type:    "vopen_out",
		Factory: func() (pipeline.AnyPlugin, pipeline.AnyConfig) { return &vopenC09Plugin{}, &vopenC09OutConfig{} },
	})
	reg.RegisterOutput(&pipeline.PluginStaticInfo{
		Type:    "vopen_dq",
		Factory: func() (pipeline.AnyPlugin, pipeline.AnyConfig) { return &vopenC09Plugin{}, &vopenC09DQConfig{} },
	})
	f := &FileD{plugins: reg}

	const rawA = `{"output": {"type": "vopen_out", "endpoint": "a", "deadqueue": {"type": "vopen_dq", "target_file": "/tmp/a.dead"}}}`
	const rawB = `{"output": {"type": "vopen_out", "endpoint": "b", "deadqueue": {"type": "vopen_dq", "target_file": "/tmp/b.dead"}}}`

	// same order as startPipelines: every pipeline is set up (getStaticInfo via setupOutput) before any is started
	infoA, err := f.getStaticInfo(vopenC09PipelineConfig(t, rawA), pipeline.PluginKindOutput, nil)
	if err != nil {
		t.Fatal(err)
	}
	if infoA.DeadQueueInfo == nil {
		t.Fatal("pipeline A: dead queue configured but not set up")
	}
	if got := infoA.DeadQueueInfo.Config.(*vopenC09DQConfig).TargetFile; got != "/tmp/a.dead" {
		t.Fatalf("pipeline A alone: dead-queue target_file=%q, want /tmp/a.dead", got)
	}

	infoB, err := f.getStaticInfo(vopenC09PipelineConfig(t, rawB), pipeline.PluginKindOutput, nil)
	if err != nil {
		t.Fatal(err)
	}
	if infoB.DeadQueueInfo == nil {
		t.Fatal("pipeline B: dead queue configured but not set up")
	}

	// the main output configs are per pipeline (control)
	if a, b := infoA.Config.(*vopenC09OutConfig).Endpoint, infoB.Config.(*vopenC09OutConfig).Endpoint; a != "a" || b != "b" {
		t.Fatalf("main output configs mixed up: A.endpoint=%q B.endpoint=%q", a, b)
	}

	gotA := infoA.DeadQueueInfo.Config.(*vopenC09DQConfig).TargetFile
	gotB := infoB.DeadQueueInfo.Config.(*vopenC09DQConfig).TargetFile
	if gotA != "/tmp/a.dead" || gotB != "/tmp/b.dead" {
		t.Errorf("REPLAY-FAIL two pipelines, same output and dead-queue types, deadqueue.target_file /tmp/a.dead and /tmp/b.dead: after setting up both, pipeline A's dead queue would be started with target_file=%q and B's with %q (same *PluginStaticInfo: %v); want A=/tmp/a.dead, B=/tmp/b.dead",
			gotA, gotB, infoA.DeadQueueInfo == infoB.DeadQueueInfo)
	}

	// and setting up a pipeline must not write its config into the shared registry entry
	if regInfo, _ := reg.Get(pipeline.PluginKindOutput, "vopen_dq"); regInfo.Config != nil {
		t.Errorf("REPLAY-FAIL registry entry of dead-queue type vopen_dq carries a pipeline's config %+v after getStaticInfo; want the shared entry left untouched (Config=nil)", regInfo.Config)
	}
}
