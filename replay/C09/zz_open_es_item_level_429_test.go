package elasticsearch

// Open finding C09 ("A failed send is retried ... no fewer times than configured before it is given up ... On
// exhaustion every event of the batch is handed exactly once to the dead-queue output when one is configured
// and is then committed by the dead queue alone; otherwise the failure is reported once through the error
// callback").
// Plugin.out maps a failed send with status 400 or 413 to `return nil` ("non-retryable"): the RetriableBatcher
// sees a success, so there is no retry, onError is never called, nothing reaches the configured dead queue,
// and the main batcher commits events that were delivered nowhere.

import (
	"net/http"
	"net/http/httptest"
	"sync"
	"testing"
	"time"

	"github.com/ozontech/file.d/pipeline"
	"github.com/ozontech/file.d/test"
	insaneJSON "github.com/ozontech/insane-json"
)

type verifItems429Controller struct {
	mu      sync.Mutex
	commits int
}

func (c *verifItems429Controller) Commit(*pipeline.Event) { c.mu.Lock(); c.commits++; c.mu.Unlock() }
func (c *verifItems429Controller) Error(string)           {}
func (c *verifItems429Controller) count() int {
	c.mu.Lock()
	defer c.mu.Unlock()
	return c.commits
}

// a dead-queue output: takes the event (and would commit it itself)
type verifItems429DeadQueue struct {
	mu  sync.Mutex
	got int
}

func (d *verifItems429DeadQueue) Start(pipeline.AnyConfig, *pipeline.OutputPluginParams) {}
func (d *verifItems429DeadQueue) Stop()                                                  {}
func (d *verifItems429DeadQueue) Out(*pipeline.Event)                                    { d.mu.Lock(); d.got++; d.mu.Unlock() }
func (d *verifItems429DeadQueue) count() int {
	d.mu.Lock()
	defer d.mu.Unlock()
	return d.got
}

func TestVerifOpenESItemLevel429Committed(t *testing.T) {
	var mu sync.Mutex
	requests := 0
	srv := httptest.NewServer(http.HandlerFunc(func(w http.ResponseWriter, _ *http.Request) {
		mu.Lock()
		requests++
		mu.Unlock()
		w.WriteHeader(http.StatusOK)
		_, _ = w.Write([]byte(`{"took":1,"errors":true,"items":[{"index":{"_index":"logs","status":429,"error":{"type":"es_rejected_execution_exception","reason":"rejected execution of coordinating operation"}}}]}`))
	}))
	defer srv.Close()

	const retry = 2
	config := test.NewConfig(&Config{
		Endpoints:         []string{srv.URL},
		BatchSize:         "1",
		BatchFlushTimeout: "50ms",
		WorkersCount:      "1",
		Retry:             retry,
		Retention:         "5ms",
	}, map[string]int{"gomaxprocs": 1, "capacity": 64})

	ctl := &verifItems429Controller{}
	dq := &verifItems429DeadQueue{}
	params := test.NewEmptyOutputPluginParams()
	params.Controller = ctl
	router := pipeline.NewRouter()
	router.SetDeadQueueOutput(&pipeline.OutputPluginInfo{
		PluginStaticInfo:  &pipeline.PluginStaticInfo{Type: "verif_dq"},
		PluginRuntimeInfo: &pipeline.PluginRuntimeInfo{Plugin: dq},
	})
	params.Router = router

	p := &Plugin{}
	p.Start(config, params)
	defer p.Stop()

	root, err := insaneJSON.DecodeString(`{"message":"hello"}`)
	if err != nil {
		t.Fatal(err)
	}
	p.Out(&pipeline.Event{Root: root, Buf: make([]byte, 0, 128)})

	deadline := time.Now().Add(5 * time.Second)
	for time.Now().Before(deadline) && dq.count() == 0 && ctl.count() == 0 {
		time.Sleep(5 * time.Millisecond)
	}
	time.Sleep(150 * time.Millisecond)

	mu.Lock()
	n := requests
	mu.Unlock()
	if dq.count() != 1 || ctl.count() != 0 || n < retry+1 {
		t.Errorf("REPLAY-FAIL elasticsearch output, retry=%d, dead queue configured, 1 event, _bulk always answered 200 errors:true item status 429 (es_rejected_execution_exception): %d request(s) sent (want >= %d before giving up), dead queue got the event %d time(s) (want 1), main output committed it %d time(s) (want 0: it was delivered nowhere); reportESErrors returns nil for item-level failures",
			retry, n, retry+1, dq.count(), ctl.count())
	}
}
