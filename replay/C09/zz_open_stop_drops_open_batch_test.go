package pipeline

// Open finding C09 ("On exhaustion every event of the batch is handed exactly once to the dead-queue output
// when one is configured and is then committed by the dead queue alone").
// Batcher.Stop only closes fullBatches and waits for the workers; the open, partially filled batch
// (Batcher.batch) is neither flushed nor committed, and heartbeat stops flushing as soon as shouldStop is set.
// Router.Stop stops the main output first: its last failing batch is handed to the dead queue (Router.Fail ->
// dead-queue Batcher.Add), the main batch is committed empty (BatchStatusInDeadQueue), and the dead queue's
// Stop then throws its open batch away - the events are sent nowhere and committed by nobody.

import (
	"context"
	"errors"
	"sync"
	"testing"
	"time"

	"github.com/ozontech/file.d/metric"
	"github.com/prometheus/client_golang/prometheus"
)

func TestVerifOpenStopDropsOpenBatch(t *testing.T) {
	var mu sync.Mutex
	dqSent, dqCommits, mainCommits, mainSends, errorCalls := 0, 0, 0, 0, 0

	// the dead-queue output's batcher: batch_size 10, flush timeout 1 minute
	dq := NewBatcher(BatcherOptions{
		PipelineName: "verif_open_stop",
		OutputType:   "deadqueue",
		OutFn: func(_ *WorkerData, b *Batch) {
			mu.Lock()
			b.ForEach(func(*Event) { dqSent++ })
			mu.Unlock()
		},
		Controller:     &batcherTail{commit: func(*Event) { mu.Lock(); dqCommits++; mu.Unlock() }},
		Workers:        1,
		BatchSizeCount: 10,
		FlushTimeout:   time.Minute,
		MetricCtl:      metric.NewCtl("", prometheus.NewRegistry(), time.Minute, 0),
	})

	// the main output's batcher: every send fails, retry 1, dead queue configured
	main := NewRetriableBatcher(
		&BatcherOptions{
			PipelineName:   "verif_open_stop",
			OutputType:     "main",
			Controller:     &batcherTail{commit: func(*Event) { mu.Lock(); mainCommits++; mu.Unlock() }},
			Workers:        1,
			BatchSizeCount: 1,
			FlushTimeout:   time.Minute,
			MetricCtl:      metric.NewCtl("", prometheus.NewRegistry(), time.Minute, 0),
		},
		func(*WorkerData, *Batch) error {
			mu.Lock()
			mainSends++
			mu.Unlock()
			return errors.New("sink is down")
		},
		BackoffOpts{MinRetention: time.Millisecond, Multiplier: 1, AttemptNum: 1, IsDeadQueueAvailable: true},
		func(_ error, events []*Event) { // what the output plugins' onError does: Router.Fail(event) -> dead queue Out
			mu.Lock()
			errorCalls++
			mu.Unlock()
			for _, e := range events {
				dq.Add(e)
			}
		},
	)

	ctx, cancel := context.WithCancel(context.Background())
	defer cancel()
	dq.Start(ctx)
	main.Start(ctx)

	main.Add(&Event{SeqID: 1})

	// Router.Stop: main output first, then the dead queue
	stopped := make(chan struct{})
	go func() {
		main.Stop()
		dq.Stop()
		close(stopped)
	}()
	select {
	case <-stopped:
	case <-time.After(10 * time.Second):
		t.Fatalf("REPLAY-FAIL Stop of the main / dead-queue batchers did not return within 10 s")
	}

	mu.Lock()
	defer mu.Unlock()
	if errorCalls != 1 {
		t.Fatalf("setup: the main batcher gave up %d times after %d sends (want 1)", errorCalls, mainSends)
	}
	if dqSent != 1 || dqCommits != 1 || mainCommits != 0 {
		t.Errorf("REPLAY-FAIL 1 event, main output failing (%d sends, gave up once, dead queue configured), dead-queue batcher with batch_size 10 / flush timeout 1m, then main.Stop(); deadqueue.Stop(): the dead queue sent %d event(s) and committed %d, main committed %d; want the event handed to the dead queue to be sent once and committed once by the dead queue (Batcher.Stop drops the open batch)",
			mainSends, dqSent, dqCommits, mainCommits)
	}
}
