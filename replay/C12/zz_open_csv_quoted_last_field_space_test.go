package decoder

// Open finding (C12, weak): "a well-formed CRI / syslog / nginx / CSV line yields exactly its fields".
// Mechanism: CSVDecoder.Decode (decoder/csv.go) trims trailing white space of the line only on the non-quoted branch
// (bytes.TrimSpace on the last field), so `a,b,c \n` decodes to [a b c]; on the quoted branch the only accepted
// continuations after the closing quote are `"`, the delimiter, end of data and a single final '\n', so the same line
// with the last field quoted, `a,b,"c" \n`, is rejected with "invalid non-escaped quote" and the event is dropped.
// (Strict RFC 4180 does not allow the space either; the finding is the inconsistency between the two branches.)

import (
	"reflect"
	"testing"
)

func TestVerifOpenCSVQuotedLastFieldSpace(t *testing.T) {
	d, err := NewCSVDecoder(nil)
	if err != nil {
		t.Fatal(err)
	}
	// reference: same line, last field not quoted
	ref, err := d.Decode([]byte("a,b,c \n"))
	if err != nil || !reflect.DeepEqual(ref.(CSVRow), CSVRow{"a", "b", "c"}) {
		t.Skipf("premise changed: unquoted last field with trailing space gives %v, %v", ref, err)
	}
	const in = "a,b,\"c\" \n"
	got, err := d.Decode([]byte(in))
	if err != nil {
		t.Fatalf("REPLAY-FAIL csv decoder on %q: error %q, while %q decodes to [a b c]; the property demands the fields [a b c] for both (trailing white space of the line is trimmed)", in, err, "a,b,c \n")
	}
	if !reflect.DeepEqual(got.(CSVRow), CSVRow{"a", "b", "c"}) {
		t.Fatalf("REPLAY-FAIL csv decoder on %q gave %q; want [a b c]", in, got)
	}
}
