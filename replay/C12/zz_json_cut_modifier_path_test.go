package decoder

// Open finding (C12): "per-field size limits cut only the named string fields and always leave valid JSON" and "a valid
// JSON object passes through decode and re-encode semantically unchanged".
// Mechanism: cutFieldsBySize (decoder/json.go) trusts gjson's Result.Index as the position of the value in the line.
// For a path with a modifier (e.g. "a|@this") gjson returns a String result with Index == 0 (the value is computed, not
// a slice of the input), so the cut is taken at the start of the document: bytes of the first key and of another field
// are deleted and the valid document becomes undecodable (the event is dropped with a decode error).

import (
	"encoding/json"
	"fmt"
	"testing"

	insaneJSON "github.com/ozontech/insane-json"
)

func TestVerifJsonCutModifierPath(t *testing.T) {
	const in = `{"first":"keepkeepkeep","a":"bbbbbbbbbb"}`
	d, err := NewJsonDecoder(Params{"json_max_fields_size": map[string]any{"a|@this": 3}})
	if err != nil {
		t.Fatal(err)
	}
	root := insaneJSON.Spawn()
	defer insaneJSON.Release(root)

	var (
		out      string
		decErr   error
		panicked any
	)
	func() {
		defer func() { panicked = recover() }()
		buf := append([]byte(nil), in...)
		decErr = d.DecodeToJson(root, buf)
		if decErr == nil {
			out = root.EncodeToString()
		}
	}()
	if panicked != nil {
		t.Fatalf("REPLAY-FAIL json_max_fields_size {\"a|@this\":3} on %s panicked: %v", in, fmt.Sprint(panicked))
	}
	if decErr != nil {
		t.Fatalf("REPLAY-FAIL json_max_fields_size {\"a|@this\":3} on the valid document %s: decode error %q (the cut was applied at offset 0 of the line instead of at field a); the property demands valid JSON with only the named field cut", in, decErr)
	}
	var m map[string]any
	if err := json.Unmarshal([]byte(out), &m); err != nil {
		t.Fatalf("REPLAY-FAIL json_max_fields_size {\"a|@this\":3} on %s produced invalid JSON %s", in, out)
	}
	if m["first"] != "keepkeepkeep" || (m["a"] != "bbb" && m["a"] != "bbbbbbbbbb") || len(m) != 2 {
		t.Fatalf("REPLAY-FAIL json_max_fields_size {\"a|@this\":3} on %s produced %s; field first must be unchanged and a be bbb (or untouched)", in, out)
	}
}
