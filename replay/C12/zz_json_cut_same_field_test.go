package decoder

// Open finding (C12): "decoding ... never crashes the process" and "per-field size limits cut only the named string
// fields and always leave valid JSON".
// Mechanism: cutFieldsBySize (decoder/json.go) collects one cut position per configured path. Two paths that resolve to
// the same field (plain key "a" and the gjson wildcard "?") yield the same position twice; the second cut is applied to
// the already shortened buffer with the old offsets: data[p.end+1:] -> slice bounds out of range [16:10], a panic in
// the decoder (i.e. in Pipeline.In, which kills the collector).

import (
	"encoding/json"
	"fmt"
	"testing"

	insaneJSON "github.com/ozontech/insane-json"
)

func TestVerifJsonCutSameField(t *testing.T) {
	const in = `{"a":"xxxxxxxxxx"}`
	d, err := NewJsonDecoder(Params{"json_max_fields_size": map[string]any{"a": 2, "?": 2}})
	if err != nil {
		t.Fatal(err)
	}
	root := insaneJSON.Spawn()
	defer insaneJSON.Release(root)

	var (
		out      string
		decErr   error
		panicked any
	)
	func() {
		defer func() { panicked = recover() }()
		buf := append([]byte(nil), in...)
		decErr = d.DecodeToJson(root, buf)
		if decErr == nil {
			out = root.EncodeToString()
		}
	}()
	if panicked != nil {
		t.Fatalf("REPLAY-FAIL json decoder with json_max_fields_size {a:2, ?:2} on %s panicked (%v); the property demands no crash and a valid document with a cut to 2 bytes", in, fmt.Sprint(panicked))
	}
	if decErr != nil {
		t.Fatalf("REPLAY-FAIL json decoder with json_max_fields_size {a:2, ?:2} rejected the valid document %s: %v", in, decErr)
	}
	var m map[string]any
	if err := json.Unmarshal([]byte(out), &m); err != nil || m["a"] != "xx" {
		t.Fatalf("REPLAY-FAIL json decoder with json_max_fields_size {a:2, ?:2} on %s produced %s; want {\"a\":\"xx\"}", in, out)
	}
}
