package decoder

// Open finding (C12): "a well-formed CRI / syslog / nginx / CSV line yields exactly its fields".
// Mechanism: parseStructuredData (decoder/syslog_rfc5424.go) decides that a quote is escaped by looking only at the
// previous byte (data[idx-1] == '\\'), so the closing quote after an escaped backslash (k="a\\") is taken as escaped:
// the param is never stored (and the whole SD element vanishes) or is merged with the next param. The ']' case is
// checked without regard to insideParamValue, so the escape \] that RFC 5424 (6.3.3) requires inside a value is
// rejected as a format error.

import (
	"encoding/json"
	"testing"

	insaneJSON "github.com/ozontech/insane-json"
)

func TestVerifOpenSyslog5424SDEscapes(t *testing.T) {
	const head = `<165>1 2003-10-11T22:14:15.003Z host app 10 ID47 `
	type tc struct {
		sd   string
		want map[string][]string // param -> accepted values (raw escapes kept, or unescaped)
	}
	for _, c := range []tc{
		{`[ex@1 k="a\\"]`, map[string][]string{"k": {`a\\`, `a\`}}},
		{`[ex@1 k="a\\" j="2"]`, map[string][]string{"k": {`a\\`, `a\`}, "j": {"2"}}},
		{`[ex@1 k="a\]b"]`, map[string][]string{"k": {`a\]b`, `a]b`}}},
	} {
		line := head + c.sd + " msg"
		d, err := NewSyslogRFC5424Decoder(nil)
		if err != nil {
			t.Fatal(err)
		}
		root := insaneJSON.Spawn()
		err = d.DecodeToJson(root, []byte(line))
		out := root.EncodeToString()
		insaneJSON.Release(root)
		if err != nil {
			t.Errorf("REPLAY-FAIL syslog_rfc5424 rejected the well-formed line %q: %v; the property demands exactly its fields (param k of ex@1)", line, err)
			continue
		}
		var m map[string]any
		if err := json.Unmarshal([]byte(out), &m); err != nil {
			t.Errorf("REPLAY-FAIL syslog_rfc5424 on %q produced invalid JSON %s", line, out)
			continue
		}
		obj, _ := m["ex@1"].(map[string]any)
		ok := len(obj) == len(c.want)
		for k, accepted := range c.want {
			got, _ := obj[k].(string)
			found := false
			for _, a := range accepted {
				found = found || got == a
			}
			ok = ok && found
		}
		if !ok || m["message"] != "msg" {
			t.Errorf("REPLAY-FAIL syslog_rfc5424 on the well-formed line %q produced %s; want ex@1 with exactly params %v and message msg", line, out, c.want)
		}
	}
}
