package decoder

// Replay canaries for C12 (decoders are total): each input made the named
// decoder panic on the pinned tree; run through `go test -overlay`.

import (
	"fmt"
	"testing"
)

func replayNoPanic(t *testing.T, name string, f func()) {
	t.Helper()
	defer func() {
		if r := recover(); r != nil {
			t.Errorf("REPLAY-FAIL %s: panic: %v", name, r)
		}
	}()
	f()
}

func TestVerifReplayC12(t *testing.T) {
	cases := []struct {
		name string
		f    func()
	}{
		{"DecodeCRI partial tag without log", func() { _, _ = DecodeCRI([]byte("2016-10-06T00:17:09.669794202Z stdout P ")) }},
		{"DecodePostgres pid close brace first", func() { _, _ = DecodePostgres([]byte("a b c ] [x] =,=,= LOG:  x")) }},
		{"DecodePostgres comma before equals (client)", func() { _, _ = DecodePostgres([]byte("a b c [1] [x] ,=,=,= LOG:  x")) }},
		{"DecodePostgres comma before equals (db)", func() { _, _ = DecodePostgres([]byte("a b c [1] [x] =,,==,= LOG:  x")) }},
		{"DecodePostgres space before equals (user)", func() { _, _ = DecodePostgres([]byte("a b c [1] [x] =,=, = LOG:  x")) }},
		{"DecodePostgres log delimiter last", func() { _, _ = DecodePostgres([]byte("a b c [1] [x] =,=,= LOG ")) }},
		{"RFC3164 procid bracket at end", func() {
			d, _ := NewSyslogRFC3164Decoder(nil)
			_, _ = d.Decode([]byte("<34>Oct 11 22:14:15 host app[10]"))
		}},
		{"RFC5424 sd close bracket after space", func() {
			d, _ := NewSyslogRFC5424Decoder(nil)
			_, _ = d.Decode([]byte("<165>1 2003-10-11T22:14:15.003Z host app 1 ID47 [ab ]"))
		}},
		{"RFC5424 sd quote after space", func() {
			d, _ := NewSyslogRFC5424Decoder(nil)
			_, _ = d.Decode([]byte("<165>1 2003-10-11T22:14:15.003Z host app 1 ID47 [ab \""))
		}},
		{"CSV trailing delimiter", func() {
			d, _ := NewCSVDecoder(nil)
			_, _ = d.Decode([]byte("a,"))
		}},
		{"CSV closing quote at end of input", func() {
			d, _ := NewCSVDecoder(nil)
			_, _ = d.Decode([]byte("\"abc\""))
		}},
	}
	for _, c := range cases {
		replayNoPanic(t, c.name, c.f)
	}
	fmt.Println("replayed", len(cases), "C12 canaries")
}
