package decoder

// Open finding (C12): "decoding either yields a well-formed event or reports an error" / "yields exactly its fields".
// Mechanism: after parseStructuredData, Decode (decoder/syslog_rfc5424.go) does data = data[offset+1:] without checking
// that the skipped byte is the SP that RFC 5424 requires between STRUCTURED-DATA and MSG. For "...]X msg" the byte X is
// neither reported as a format error nor kept: it disappears from the event (message is "msg").

import (
	"encoding/json"
	"strings"
	"testing"

	insaneJSON "github.com/ozontech/insane-json"
)

func TestVerifOpenSyslog5424ByteAfterSD(t *testing.T) {
	const line = `<165>1 2003-10-11T22:14:15.003Z host app 10 ID47 [ex@1 k="v"]X msg`
	d, err := NewSyslogRFC5424Decoder(nil)
	if err != nil {
		t.Fatal(err)
	}
	root := insaneJSON.Spawn()
	defer insaneJSON.Release(root)
	if err := d.DecodeToJson(root, []byte(line)); err != nil {
		return // malformed line reported: fine
	}
	out := root.EncodeToString()
	var m map[string]any
	if err := json.Unmarshal([]byte(out), &m); err != nil {
		t.Fatalf("REPLAY-FAIL syslog_rfc5424 on %q produced invalid JSON %s", line, out)
	}
	msg, _ := m["message"].(string)
	if !strings.Contains(msg, "X") {
		t.Fatalf("REPLAY-FAIL syslog_rfc5424 on %q returned no error and message=%q: the byte X after the structured data was silently dropped (event %s); the property demands an error or a faithful event", line, msg, out)
	}
}
