package decoder

import "testing"

// A partial CRI line handed over without a trailing newline (kafka, http, socket inputs) keeps its last byte.
func TestVerifCRIPartialKeepsLastByte(t *testing.T) {
	row, err := DecodeCRI([]byte("2016-10-06T00:17:09.669794202Z stdout P abc"))
	if err != nil || string(row.Log) != "abc" {
		t.Fatalf("REPLAY-FAIL partial line without newline: log=%q err=%v, want \"abc\"", row.Log, err)
	}
	row, err = DecodeCRI([]byte("2016-10-06T00:17:09.669794202Z stdout P abc\n"))
	if err != nil || string(row.Log) != "abc" {
		t.Fatalf("REPLAY-FAIL partial line with newline: log=%q err=%v, want \"abc\"", row.Log, err)
	}
}
