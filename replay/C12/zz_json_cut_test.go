package decoder

// Replay canary (C12): json_max_fields_size on values with escape sequences must leave valid JSON with the field cut
// (before the fix: "ab\ncd" -> "ab\d", "a\"bcdef" -> "a\"f", "abc\\\\" -> decode error, event dropped).

import (
	"testing"

	insaneJSON "github.com/ozontech/insane-json"
)

func TestVerifJsonCutEscapes(t *testing.T) {
	for _, in := range []string{`{"msg":"ab\ncd","x":1}`, `{"msg":"a\"bcdef"}`, `{"msg":"abc\\"}`, `{"msg":"ABCD"}`, `{"msg":"abcdef"}`} {
		d, err := NewJsonDecoder(Params{"json_max_fields_size": map[string]any{"msg": 3}})
		if err != nil {
			t.Fatal(err)
		}
		root := insaneJSON.Spawn()
		buf := append([]byte(nil), in...)
		n, err := d.Decode(buf, root); _ = n
		if err != nil {
			t.Errorf("REPLAY-FAIL %s -> decode error after cutting: %v", in, err)
		} else {
			t.Logf("%s -> %s", in, n.(*insaneJSON.Node).EncodeToString())
		}
		insaneJSON.Release(root)
	}
}
