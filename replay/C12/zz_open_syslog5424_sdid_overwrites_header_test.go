package decoder

// Open finding (C12): "a well-formed CRI / syslog / nginx / CSV line yields exactly its fields".
// Mechanism: syslogDecodeToJson (decoder/syslog.go) writes each structured-data element as a top-level field named by
// its SD-ID with AddFieldNoAlloc, which returns the existing node when the key is present. An SD-ID equal to a header
// field name ("hostname", "message", "priority", ... - all legal SD-NAMEs) therefore replaces the header value by the
// params object and the real header value is lost.

import (
	"encoding/json"
	"testing"

	insaneJSON "github.com/ozontech/insane-json"
)

func TestVerifOpenSyslog5424SDIDOverwritesHeader(t *testing.T) {
	const line = `<165>1 2003-10-11T22:14:15.003Z mymachine app 10 ID47 [hostname k="v"] msg`
	d, err := NewSyslogRFC5424Decoder(nil)
	if err != nil {
		t.Fatal(err)
	}
	root := insaneJSON.Spawn()
	defer insaneJSON.Release(root)
	if err := d.DecodeToJson(root, []byte(line)); err != nil {
		return // an error is an acceptable outcome under the property
	}
	out := root.EncodeToString()
	var m map[string]any
	if err := json.Unmarshal([]byte(out), &m); err != nil {
		t.Fatalf("REPLAY-FAIL syslog_rfc5424 on %q produced invalid JSON %s", line, out)
	}
	if m["hostname"] != "mymachine" {
		t.Fatalf("REPLAY-FAIL syslog_rfc5424 on %q produced %s: header field hostname=mymachine was replaced by the params of the SD element named hostname; the property demands exactly the line's fields (or an error)", line, out)
	}
}
