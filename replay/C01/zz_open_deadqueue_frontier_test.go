// Open finding replay for C01 ("commit frontier safety"), clause "every event read earlier from the same
// source and stream has already been either acknowledged by an output or deliberately dropped" (and C09's
// "is then committed by the dead queue alone" ordering consequence).
// Mechanism: main RetriableBatcher + dead-queue Batcher share one controller. Batch N (offset 1) exhausts
// its retries; onRetryError hands its events to Router.Fail -> dead-queue Out (they are only *buffered*
// there), then backoff.go does batch.reset() and Batcher.commitBatch still does commitSeq++ for the emptied
// batch. So batch N+1 (offset 2) is committed while offset 1 sits un-acknowledged in the dead queue.
package pipeline

import (
	"context"
	"errors"
	"fmt"
	"sync"
	"testing"
	"time"

	"github.com/ozontech/file.d/metric"
	"github.com/prometheus/client_golang/prometheus"
)

// vopenC01Log is the shared history: output acknowledgements and input commits, in real order.
type vopenC01Log struct {
	mu      sync.Mutex
	history []string
	acked   map[int64]bool
	commits []int64
}

func (l *vopenC01Log) ack(by string, off int64) {
	l.mu.Lock()
	l.acked[off] = true
	l.history = append(l.history, fmt.Sprintf("ack(%s,%d)", by, off))
	l.mu.Unlock()
}

// Commit/Error: OutputPluginController
func (l *vopenC01Log) Commit(e *Event) {
	l.mu.Lock()
	l.commits = append(l.commits, e.Offset)
	l.history = append(l.history, fmt.Sprintf("commit(%d)", e.Offset))
	l.mu.Unlock()
}
func (l *vopenC01Log) Error(string) {}

func (l *vopenC01Log) snapshot() (commits []int64, acked map[int64]bool, history []string) {
	l.mu.Lock()
	defer l.mu.Unlock()
	acked = map[int64]bool{}
	for k, v := range l.acked {
		acked[k] = v
	}
	return append([]int64(nil), l.commits...), acked, append([]string(nil), l.history...)
}

// main output: same shape as the batching outputs (elasticsearch, clickhouse, ...): RetriableBatcher whose
// onError forwards every event to Router.Fail. Sending offset 1 always fails, anything else succeeds.
type vopenC01Main struct {
	log     *vopenC01Log
	batcher *RetriableBatcher
}

func (p *vopenC01Main) Start(_ AnyConfig, params *OutputPluginParams) {
	router := params.Router
	opts := BatcherOptions{
		PipelineName: "vopen_c01", OutputType: "main", Controller: params.Controller,
		Workers: 1, BatchSizeCount: 1, FlushTimeout: 10 * time.Millisecond,
		MetricCtl: metric.NewCtl("", prometheus.NewRegistry(), time.Minute, 0),
	}
	p.batcher = NewRetriableBatcher(&opts,
		func(_ *WorkerData, b *Batch) error {
			var err error
			b.ForEach(func(e *Event) {
				if e.Offset == 1 {
					err = errors.New("main output rejects offset 1")
				}
			})
			if err != nil {
				return err
			}
			b.ForEach(func(e *Event) { p.log.ack("main", e.Offset) })
			return nil
		},
		BackoffOpts{MinRetention: time.Millisecond, Multiplier: 1, AttemptNum: 1, IsDeadQueueAvailable: router.IsDeadQueueAvailable()},
		func(_ error, events []*Event) {
			for i := range events {
				router.Fail(events[i])
			}
		})
	p.batcher.Start(context.Background())
}
func (p *vopenC01Main) Stop()        { p.batcher.Stop() }
func (p *vopenC01Main) Out(e *Event) { p.batcher.Add(e) }

// dead-queue output: a plain Batcher whose send does not return (= no acknowledgement) until gate is closed.
type vopenC01DQ struct {
	log     *vopenC01Log
	gate    chan struct{}
	batcher *Batcher
}

func (p *vopenC01DQ) Start(_ AnyConfig, params *OutputPluginParams) {
	p.batcher = NewBatcher(BatcherOptions{
		PipelineName: "vopen_c01", OutputType: "dq", Controller: params.Controller,
		Workers: 1, BatchSizeCount: 1, FlushTimeout: 10 * time.Millisecond,
		MetricCtl: metric.NewCtl("", prometheus.NewRegistry(), time.Minute, 0),
		OutFn: func(_ *WorkerData, b *Batch) {
			<-p.gate
			b.ForEach(func(e *Event) { p.log.ack("dq", e.Offset) })
		},
	})
	p.batcher.Start(context.Background())
}
func (p *vopenC01DQ) Stop()        { p.batcher.Stop() }
func (p *vopenC01DQ) Out(e *Event) { p.batcher.Add(e) }

func TestVerifOpenDeadQueueFrontier(t *testing.T) {
	log := &vopenC01Log{acked: map[int64]bool{}}
	mainOut := &vopenC01Main{log: log}
	dq := &vopenC01DQ{log: log, gate: make(chan struct{})}

	r := NewRouter()
	r.SetOutput(&OutputPluginInfo{PluginStaticInfo: &PluginStaticInfo{}, PluginRuntimeInfo: &PluginRuntimeInfo{Plugin: mainOut}})
	r.SetDeadQueueOutput(&OutputPluginInfo{PluginStaticInfo: &PluginStaticInfo{}, PluginRuntimeInfo: &PluginRuntimeInfo{Plugin: dq}})
	r.Start(&OutputPluginParams{Controller: log})

	// one source, one stream, read order: offset 1 then offset 2 (each its own batch: BatchSizeCount=1)
	r.Out(&Event{SeqID: 1, SourceID: 7, Offset: 1, Size: 1})
	r.Out(&Event{SeqID: 2, SourceID: 7, Offset: 2, Size: 1})

	// phase 1: the dead queue has NOT acknowledged offset 1 (gate is shut). Nothing at or past offset 1 may be
	// committed. A repaired tree keeps offset 2 back, so this phase simply runs out after 1s there.
	deadline := time.Now().Add(time.Second)
	for time.Now().Before(deadline) {
		commits, _, _ := log.snapshot()
		if len(commits) > 0 {
			break
		}
		time.Sleep(time.Millisecond)
	}
	commits, acked, history := log.snapshot()
	for _, off := range commits {
		if !acked[1] && off >= 1 {
			t.Errorf("REPLAY-FAIL read order offsets 1,2; main output fails offset 1 (retries exhausted -> dead queue, which has not acked yet): offset %d was committed while offset 1 is un-acknowledged in the dead queue, history=%v; want no commit at/after offset 1 before ack(dq,1)",
				off, history)
			break
		}
	}

	// phase 2: let the dead queue acknowledge; now everything must be committed once, in read order.
	close(dq.gate)
	deadline = time.Now().Add(3 * time.Second)
	for time.Now().Before(deadline) {
		commits, _, _ = log.snapshot()
		if len(commits) >= 2 {
			break
		}
		time.Sleep(time.Millisecond)
	}

	stopped := make(chan struct{})
	go func() { r.Stop(); close(stopped) }()
	select {
	case <-stopped:
	case <-time.After(3 * time.Second):
		t.Errorf("REPLAY-FAIL Router.Stop did not return within 3s")
	}

	commits, _, history = log.snapshot()
	if len(commits) != 2 || commits[0] != 1 || commits[1] != 2 {
		t.Errorf("REPLAY-FAIL read order offsets 1,2; offset 1 routed to the dead queue: commits reached the input as %v (history=%v), want [1 2]: each once, in read order, each after its own acknowledgement",
			commits, history)
	}
}
