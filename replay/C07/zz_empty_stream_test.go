package file

// Replay canary (C07): what save writes, load reads back.  An event whose stream field is the empty string has the
// stream name "" (pipeline.In); its committed offset is saved as "    : <offset>", a line the loader used to reject -
// and a rejected line made file.d panic at the next start ("can't load offsets") until the file was removed by hand.

import (
	"path/filepath"
	"sync"
	"testing"

	"github.com/ozontech/file.d/pipeline"
	"go.uber.org/atomic"
)

func TestVerifOffsetsEmptyStreamNameRoundTrip(t *testing.T) {
	dir := t.TempDir()
	db := newOffsetDB(filepath.Join(dir, "offsets.yaml"), filepath.Join(dir, "offsets.tmp"))
	offsets := pipeline.SliceMap{}
	offsets.Set("", 120)
	offsets.Set("stderr", 240)
	jobs := map[pipeline.SourceID]*Job{
		7: {inode: 7, sourceID: 7, filename: "/var/log/app.log", shouldSkip: *atomic.NewBool(false), offsets: offsets, mu: &sync.Mutex{}},
	}
	db.save(jobs, &sync.RWMutex{})
	loaded, err := db.load()
	if err != nil {
		t.Fatalf("REPLAY-FAIL the offsets file written by save is not accepted by load: %v", err)
	}
	if len(loaded) != 1 {
		t.Fatalf("REPLAY-FAIL %d sources loaded, want 1", len(loaded))
	}
	for _, inode := range loaded {
		if inode.streams[""] != 120 || inode.streams["stderr"] != 240 {
			t.Fatalf("REPLAY-FAIL loaded stream offsets %v, want map[:120 stderr:240]", inode.streams)
		}
	}
}
