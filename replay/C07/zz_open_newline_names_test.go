package file

// Open finding C07 ("the offsets file on disk is a complete snapshot that loads back to exactly the
// per-source, per-stream offsets that had been committed ..., for every file name and stream name
// that can occur in events").  offsetDB.save writes the stream name (the value of the event's stream
// field, any string) and the file name verbatim into a line-oriented file.  A name containing '\n'
// either makes the whole file unloadable (file.d then panics at start: "can't load offsets") or, if
// crafted as "a: 7\n    b", loads back as two streams with offsets that were never committed.

import (
	"fmt"
	"path/filepath"
	"sync"
	"testing"

	"github.com/ozontech/file.d/pipeline"
	"go.uber.org/atomic"
)

func TestVerifOpenOffsetsNewlineInNames(t *testing.T) {
	cases := []struct {
		what     string
		filename string
		stream   string
		offset   int64
	}{
		{"stream name with a newline", "/var/log/app.log", "a\nb", 5},
		{"stream name shaped like two stream lines", "/var/log/app.log", "a: 7\n    b", 5},
		{"file name with a newline", "/var/log/a\nb.log", "stdout", 5},
	}
	for _, c := range cases {
		dir := t.TempDir()
		db := newOffsetDB(filepath.Join(dir, "offsets.yaml"), filepath.Join(dir, "offsets.tmp"))
		offsets := pipeline.SliceMap{}
		offsets.Set(pipeline.StreamName(c.stream), c.offset)
		jobs := map[pipeline.SourceID]*Job{
			7: {inode: 7, sourceID: 7, filename: c.filename, shouldSkip: *atomic.NewBool(false), offsets: offsets, mu: &sync.Mutex{}},
		}
		db.save(jobs, &sync.RWMutex{})

		want := fmt.Sprintf("file %q streams map[%q:%d]", c.filename, c.stream, c.offset)
		loaded, err := db.load()
		if err != nil {
			t.Errorf("REPLAY-FAIL %s: saved job {%s} -> the offsets file written by save is rejected by load: %v", c.what, want, err)
			continue
		}
		ino, ok := loaded[7]
		if !ok || len(loaded) != 1 || ino.filename != c.filename || len(ino.streams) != 1 || ino.streams[pipeline.StreamName(c.stream)] != c.offset {
			streams := map[string]int64{}
			if ok {
				for k, v := range ino.streams {
					streams[string(k)] = v
				}
			}
			t.Errorf("REPLAY-FAIL %s: saved job {%s} loads back as %d source(s), streams %q: offsets that were never committed", c.what, want, len(loaded), fmt.Sprint(streams))
		}
	}
}
