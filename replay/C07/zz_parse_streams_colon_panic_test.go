package file

// Open finding recorded under C07 (WEAK: outside what save writes - the input is a corrupted or hand-edited
// offsets file, save never emits such a line; C07 demands "the offsets file ... loads back", and the loader's
// own contract is to return an error for a file it cannot parse).  parseStreams takes the offset text of a
// stream line as line[pos+2:] (pos = index of the last ':') without checking that anything follows the
// colon: a stream line that ends with ':' ("    abc:") makes load panic with "slice bounds out of range
// [9:8]" instead of returning the "wrong offsets format" error every other malformed line gets.

import (
	"fmt"
	"os"
	"path/filepath"
	"testing"
)

func TestVerifParseStreamsColonPanic(t *testing.T) {
	const content = "- file: /some/informational/name\n  inode: 1\n  source_id: 1234\n  streams:\n    abc:\n"
	path := filepath.Join(t.TempDir(), "offsets.yaml")
	if err := os.WriteFile(path, []byte(content), 0o644); err != nil {
		t.Fatal(err)
	}

	var (
		offsets fpOffsets
		err     error
	)
	panicked := func() (r any) {
		defer func() { r = recover() }()
		offsets, err = newOffsetDB(path, "").load()
		return nil
	}()
	if panicked != nil {
		t.Fatalf("REPLAY-FAIL (weak: outside what save writes) loading the offsets file %q panics: %s; want load to return a \"wrong offsets format\" error like for any other malformed stream line",
			content, fmt.Sprint(panicked))
	}
	if err == nil {
		t.Errorf("REPLAY-FAIL loading the offsets file %q returned no error and %d entries; want an error (the stream line has no offset)", content, len(offsets))
	}
}
