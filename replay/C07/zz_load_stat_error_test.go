package file

// Open finding recorded under C07 (WEAK: an environment fault at load time, not a property of the snapshot
// itself; adjacent to "an unsuccessful ... never" / "loads back": the loader must report an unreadable
// offsets file, not crash on a nil pointer).  offsetDB.load only handles os.IsNotExist(err) after os.Stat;
// for any other stat error (ENOTDIR when a path component is a regular file, EACCES on a directory without
// search permission, ELOOP, ENAMETOOLONG) info is nil and the next statement info.IsDir() dereferences it:
// "invalid memory address or nil pointer dereference" instead of an error that names the file and the cause.

import (
	"fmt"
	"os"
	"path/filepath"
	"runtime"
	"testing"
)

func TestVerifLoadStatError(t *testing.T) {
	dir := t.TempDir()
	notDir := filepath.Join(dir, "plain_file")
	if err := os.WriteFile(notDir, []byte("x"), 0o644); err != nil {
		t.Fatal(err)
	}
	// a path component is a regular file: os.Stat fails with ENOTDIR, which is not "not exist"
	path := filepath.Join(notDir, "offsets.yaml")
	if _, statErr := os.Stat(path); statErr == nil || os.IsNotExist(statErr) {
		t.Fatalf("setup: os.Stat(%s) = %v, want an error other than not-exist", path, statErr)
	}

	var (
		offsets fpOffsets
		err     error
	)
	panicked := func() (r any) {
		defer func() { r = recover() }()
		offsets, err = newOffsetDB(path, "").load()
		return nil
	}()
	if rtErr, ok := panicked.(runtime.Error); ok {
		t.Fatalf("REPLAY-FAIL (weak: environment fault) load of offsets file %s, for which os.Stat fails with ENOTDIR (\"not a directory\"), crashes with a runtime error: %s; want an error (or a deliberate fatal message) that names the file and the stat error",
			path, fmt.Sprint(rtErr))
	}
	if panicked != nil {
		t.Logf("load reported the problem by a deliberate panic: %v", panicked)
		return
	}
	if err == nil {
		t.Errorf("REPLAY-FAIL load of offsets file %s, for which os.Stat fails with ENOTDIR, returned no error and %d entries; want the stat error reported", path, len(offsets))
	}
}
