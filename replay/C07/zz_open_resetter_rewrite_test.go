package file

// Open finding C07 ("the offsets file on disk is a complete snapshot that loads back ...; a new
// snapshot is made durable before it replaces the previous one").  The /reset endpoint, for a plugin
// that is not started yet, removes one entry with deleteOneOffsetByField (resetter.go): it re-encodes
// the file through yaml.Marshal of []map[string]any - keys come out alphabetically, so
// last_read_timestamp (always written by save) precedes source_id and offsetDB.load rejects the file
// ("can't parse source_id"; resetter.reset then panics) - and it writes with os.WriteFile on the live
// path (O_TRUNC in place, no temp file / fsync / rename), destroying the previous snapshot first.

import (
	"os"
	"path/filepath"
	"sync"
	"testing"

	"github.com/ozontech/file.d/pipeline"
	"go.uber.org/atomic"
)

func TestVerifOpenResetterRewritesOffsetsFile(t *testing.T) {
	dir := t.TempDir()
	cur := filepath.Join(dir, "offsets.yaml")
	db := newOffsetDB(cur, filepath.Join(dir, "offsets.tmp"))

	mk := func(id uint64, name string, off int64) *Job {
		offsets := pipeline.SliceMap{}
		offsets.Set("stdout", off)
		return &Job{inode: inodeID(id), sourceID: pipeline.SourceID(id), filename: name, shouldSkip: *atomic.NewBool(false), offsets: offsets, mu: &sync.Mutex{}}
	}
	jobs := map[pipeline.SourceID]*Job{
		7: mk(7, "/var/log/a.log", 120),
		9: mk(9, "/var/log/b.log", 240),
	}
	db.save(jobs, &sync.RWMutex{})
	before, err := os.ReadFile(cur)
	if err != nil {
		t.Fatal(err)
	}
	if loaded, err := db.load(); err != nil || len(loaded) != 2 {
		t.Fatalf("setup: the saved file does not load: %v (%d sources)", err, len(loaded))
	}
	// a second name for the previous snapshot: it keeps the old content iff the file is REPLACED
	// (temp file + rename) and not rewritten in place
	keep := filepath.Join(dir, "previous-snapshot")
	if err := os.Link(cur, keep); err != nil {
		t.Fatal(err)
	}

	// what POST /reset {"inode":9} does before the plugin is started
	func() {
		defer func() {
			if r := recover(); r != nil {
				t.Errorf("REPLAY-FAIL deleteOneOffsetByField(inode=9) panicked: %v", r)
			}
		}()
		deleteOneOffsetByField(db, "inode", 9)
	}()

	after, _ := os.ReadFile(cur)
	loaded, err := db.load()
	if err != nil {
		t.Errorf("REPLAY-FAIL offsets file saved for sources 7 and 9, then reset of inode 9: the rewritten offsets file is rejected by load: %v (file: %q); want source 7 with stdout:120", err, after)
	} else if ino, ok := loaded[7]; !ok || len(loaded) != 1 || ino.streams["stdout"] != 120 || ino.filename != "/var/log/a.log" {
		t.Errorf("REPLAY-FAIL offsets file saved for sources 7 and 9, then reset of inode 9: loads back as %d source(s) (file: %q); want exactly source 7 with stdout:120", len(loaded), after)
	}

	kept, err := os.ReadFile(keep)
	if err != nil {
		t.Fatal(err)
	}
	if string(kept) != string(before) {
		t.Errorf("REPLAY-FAIL reset of inode 9: the previous snapshot was overwritten in place (a hard link to it now reads %q instead of the %d bytes saved before); the new snapshot must be written to a temporary file, synced and renamed over the old one", kept, len(before))
	}
}
