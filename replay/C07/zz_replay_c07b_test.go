package offset

// Replay helper for C07 (generic offset.Save used by journalctl / dmesg): performs one Save.
// Run under `strace -f -e trace=fsync,fdatasync,renameat,rename,renameat2`: a durable snapshot
// needs an fsync of the temporary file before the rename.  (See replay/C07/strace_save.sh)

import (
	"io"
	"path/filepath"
	"testing"
)

type replaySaver struct{}

func (replaySaver) Load(io.Reader) error { return nil }
func (replaySaver) Save(w io.Writer) error {
	_, err := w.Write([]byte("cursor: abc\n"))
	return err
}

func TestVerifReplayC07GenericSave(t *testing.T) {
	o := NewOffset(filepath.Join(t.TempDir(), "offsets"))
	o.Callback = replaySaver{}
	if err := o.Save(); err != nil {
		t.Fatal(err)
	}
}
