package file

// Replay canary for C07: "an unsuccessful write never replaces a good file".
// The write of the temporary offsets file is made to fail (RLIMIT_FSIZE = 0, SIGXFSZ
// ignored => write returns EFBIG); on the pinned tree save() logged the error and
// renamed the empty temporary file over the good offsets file anyway.

import (
	"os"
	"os/signal"
	"path/filepath"
	"sync"
	"syscall"
	"testing"

	"github.com/ozontech/file.d/pipeline"
)

func TestVerifReplayC07(t *testing.T) {
	dir := t.TempDir()
	cur := filepath.Join(dir, "offsets.yaml")
	good := "- file: /var/log/a.log\n  inode: 1\n  source_id: 1234\n  last_read_timestamp: 1\n  streams:\n    stdout: 100\n"
	if err := os.WriteFile(cur, []byte(good), 0o600); err != nil {
		t.Fatal(err)
	}
	db := newOffsetDB(cur, cur+".atomic")
	job := &Job{filename: "/var/log/a.log", inode: 1, sourceID: 1234, mu: &sync.Mutex{}}
	job.offsets.Set(pipeline.StreamName("stdout"), 200)
	jobs := map[pipeline.SourceID]*Job{1234: job}

	signal.Ignore(syscall.SIGXFSZ)
	var old syscall.Rlimit
	if err := syscall.Getrlimit(syscall.RLIMIT_FSIZE, &old); err != nil {
		t.Skip("getrlimit:", err)
	}
	if err := syscall.Setrlimit(syscall.RLIMIT_FSIZE, &syscall.Rlimit{Cur: 0, Max: old.Max}); err != nil {
		t.Skip("setrlimit:", err)
	}
	db.save(jobs, &sync.RWMutex{})
	_ = syscall.Setrlimit(syscall.RLIMIT_FSIZE, &old)

	data, err := os.ReadFile(cur)
	if err != nil {
		t.Fatalf("REPLAY-FAIL offsets file unreadable after a failed save: %v", err)
	}
	if string(data) != good {
		t.Errorf("REPLAY-FAIL a failed write replaced the good offsets file; now %d bytes: %q", len(data), data)
	}
}
