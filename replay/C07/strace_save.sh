#!/bin/sh
# C07 replay for offset.Save: passes (exit 0) iff an fsync/fdatasync happens before the rename of the snapshot.
# usage: strace_save.sh [repo]   (default /repo)
set -e
REPO=${1:-/repo}
. /verif/env.sh
T=$(mktemp -d)
trap 'rm -rf "$T"' EXIT
echo "{\"Replace\":{\"$REPO/offset/zz_replay_c07b_test.go\":\"/verif/replay/C07/zz_replay_c07b_test.go\"}}" > $T/ov.json
(cd $REPO && go test -overlay $T/ov.json -vet=off -c -o $T/offset.test ./offset/) 
strace -f -e trace=fsync,fdatasync,rename,renameat,renameat2 -o $T/trace $T/offset.test -test.run TestVerifReplayC07GenericSave >/dev/null 2>&1
grep -E "fsync|fdatasync|rename" $T/trace | grep -v "ENOENT" > $T/ev || true
cat $T/ev | sed 's/^/  /'
first=$(grep -nE "fsync|fdatasync" $T/ev | head -1 | cut -d: -f1)
ren=$(grep -nE "rename" $T/ev | head -1 | cut -d: -f1)
if [ -n "$first" ] && [ -n "$ren" ] && [ "$first" -lt "$ren" ]; then echo "OK fsync before rename"; exit 0; fi
echo "REPLAY-FAIL offset.Save renames the snapshot without fsync"; exit 1
