package k8s

// Replay canary (C15): a partial chunk of a container log line whose text ends with a backslash followed by the
// letter n (`C:\n` as two characters, escaped `C:\\n`) is not the end of the line: the run goes on until a chunk
// ends with a real (escaped) line feed.

import (
	"testing"

	"github.com/ozontech/file.d/logger"
	"github.com/ozontech/file.d/pipeline"
	"github.com/ozontech/file.d/plugin/input/k8s/meta"
	"github.com/ozontech/file.d/test"
	insaneJSON "github.com/ozontech/insane-json"
)

func TestVerifK8sBackslashNIsNotEndOfLine(t *testing.T) {
	meta.EnableGatherer(logger.Instance)
	defer meta.DisableGatherer()
	item := &meta.MetaItem{Namespace: "sre", PodName: "pod-3333333333-trtrq", ContainerName: "c", ContainerID: "6e0301b633eaa2bfdcafdeba59ba0c72a3815911a6a820bf273534b0f32d98e0"}
	meta.PutMeta(getPodInfo(item, true))
	plugin := &MultilineAction{}
	config := &Config{SplitEventSize: predictionLookahead * 4}
	params := test.NewEmptyActionPluginParams()
	params.PipelineSettings = &pipeline.Settings{MaxEventSize: 0}
	plugin.Start(config, params)
	parts := []string{`{"log":"dir C:\\n"}`, `{"log":"ew is here\n"}`}
	want := []pipeline.ActionResult{pipeline.ActionCollapse, pipeline.ActionPass}
	var last *pipeline.Event
	for i, part := range parts {
		root := insaneJSON.Spawn()
		defer insaneJSON.Release(root)
		if err := root.DecodeString(part); err != nil {
			t.Fatal(err)
		}
		event := &pipeline.Event{Root: root, SourceName: getLogFilename("k8s", item), Size: len(part)}
		pipeline.CreateNestedField(event.Root, []string{"k8s_pod"}).MutateToString(string(item.PodName))
		pipeline.CreateNestedField(event.Root, []string{"k8s_namespace"}).MutateToString(string(item.Namespace))
		pipeline.CreateNestedField(event.Root, []string{"k8s_container"}).MutateToString(string(item.ContainerName))
		pipeline.CreateNestedField(event.Root, []string{"k8s_container_id"}).MutateToString(string(item.ContainerID))
		if got := plugin.Do(event); got != want[i] {
			t.Fatalf("REPLAY-FAIL chunk %d %s: action result %v, want %v (a chunk ending with an escaped backslash and the letter n ended the run)", i, part, got, want[i])
		}
		last = event
	}
	if got := last.Root.Dig("log").AsString(); got != "dir C:\\new is here\n" {
		t.Fatalf("REPLAY-FAIL joined log %q", got)
	}
}
