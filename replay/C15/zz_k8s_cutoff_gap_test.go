package k8s

// Open finding C15 ("replace each maximal run ... by one event whose field is the in-order concatenation
// of the run (up to the configured size limit)").  With cut_off_event_by_limit the chunk that overflows
// max_event_size is cut; the cut never splits an escape sequence (escapedCutLen), so it can stop a few
// bytes short of the limit.  The append branch of the following chunks (`sizeAfterAppend < maxEventSize`)
// is not guarded by skipNextEvent: a later chunk that is small enough to fit into the slack is appended
// AFTER the bytes that were skipped, so the output has a gap in the middle and is not a prefix of the
// concatenation of the run.

import (
	"strings"
	"testing"

	"github.com/ozontech/file.d/logger"
	"github.com/ozontech/file.d/pipeline"
	"github.com/ozontech/file.d/plugin/input/k8s/meta"
	"github.com/ozontech/file.d/test"
	insaneJSON "github.com/ozontech/insane-json"
)

func TestVerifK8sCutOffGap(t *testing.T) {
	meta.EnableGatherer(logger.Instance)
	defer meta.DisableGatherer()
	item := &meta.MetaItem{Namespace: "sre", PodName: "pod-5555555555-trtrq", ContainerName: "c", ContainerID: "8e0301b633eaa2bfdcafdeba59ba0c72a3815911a6a820bf273534b0f32d98e0"}
	meta.PutMeta(getPodInfo(item, true))

	plugin := &MultilineAction{}
	config := &Config{SplitEventSize: predictionLookahead * 4}
	params := test.NewEmptyActionPluginParams()
	params.PipelineSettings = &pipeline.Settings{MaxEventSize: 20, CutOffEventByLimit: true}
	plugin.Start(config, params)

	parts := []string{
		`{"log":"some "}`,
		`{"log":"abcdefgh\u001b[31mred and long enough"}`, // overflows max_event_size=20; the cut stops before the \u001b escape
		`{"log":"XY"}`,      // belongs to the skipped part of the run
		`{"log":" tail\n"}`, // end of the container log line
	}
	full := ""
	want := []pipeline.ActionResult{pipeline.ActionCollapse, pipeline.ActionCollapse, pipeline.ActionCollapse, pipeline.ActionPass}
	var last *pipeline.Event
	for i, part := range parts {
		root := insaneJSON.Spawn()
		defer insaneJSON.Release(root)
		if err := root.DecodeString(part); err != nil {
			t.Fatal(err)
		}
		full += root.Dig("log").AsString()
		event := &pipeline.Event{Root: root, SourceName: getLogFilename("k8s", item), Size: len(part)}
		pipeline.CreateNestedField(event.Root, []string{"k8s_pod"}).MutateToString(string(item.PodName))
		pipeline.CreateNestedField(event.Root, []string{"k8s_namespace"}).MutateToString(string(item.Namespace))
		pipeline.CreateNestedField(event.Root, []string{"k8s_container"}).MutateToString(string(item.ContainerName))
		pipeline.CreateNestedField(event.Root, []string{"k8s_container_id"}).MutateToString(string(item.ContainerID))
		if got := plugin.Do(event); got != want[i] {
			t.Fatalf("setup: chunk %d %s: action result %v, want %v", i, part, got, want[i])
		}
		last = event
	}

	got := last.Root.Dig("log").AsString()
	// the cut-off event is the beginning of the run (the action puts a line feed behind it)
	if !strings.HasPrefix(full, strings.TrimSuffix(got, "\n")) || len(got) < len("some ") {
		t.Errorf("REPLAY-FAIL k8s multiline, max_event_size=20, cut_off_event_by_limit, chunks [\"some \", \"abcdefgh\\u001b[31mred and long enough\", \"XY\", \" tail\\n\"]: joined log %q is not a prefix of the concatenation of the run %q: the chunk \"XY\" was appended after the skipped bytes \"\\u001b[31mred and long enough\"; want the in-order concatenation cut at the size limit",
			got, full)
	}
}
