package k8s

// Open finding C15 ("output the non-joined events unchanged and in order"; "a run is flushed when a
// non-continuing event or a stream time-out arrives").  MultilineAction keeps skipNextEvent = true after a
// chunk overflowed max_event_size (discard mode) until a chunk ending with a line feed arrives.  The
// time-out branch of Do calls resetLogBuf, which clears eventBuf / eventSize / cutOffEvent but NOT
// skipNextEvent.  The run is over after the time-out (the processor may even go on with another stream
// or source), yet the next complete line - a non-joined event - takes the "wait chunk end" branch and is
// discarded.

import (
	"testing"

	"github.com/ozontech/file.d/logger"
	"github.com/ozontech/file.d/pipeline"
	"github.com/ozontech/file.d/plugin/input/k8s/meta"
	"github.com/ozontech/file.d/test"
	insaneJSON "github.com/ozontech/insane-json"
)

func TestVerifK8sSkipSurvivesTimeout(t *testing.T) {
	meta.EnableGatherer(logger.Instance)
	defer meta.DisableGatherer()
	item := &meta.MetaItem{Namespace: "sre", PodName: "pod-4444444444-trtrq", ContainerName: "c", ContainerID: "7e0301b633eaa2bfdcafdeba59ba0c72a3815911a6a820bf273534b0f32d98e0"}
	meta.PutMeta(getPodInfo(item, true))

	plugin := &MultilineAction{}
	config := &Config{SplitEventSize: predictionLookahead * 4}
	params := test.NewEmptyActionPluginParams()
	params.PipelineSettings = &pipeline.Settings{MaxEventSize: 20}
	plugin.Start(config, params)

	newEvent := func(part string) *pipeline.Event {
		root := insaneJSON.Spawn()
		t.Cleanup(func() { insaneJSON.Release(root) })
		if err := root.DecodeString(part); err != nil {
			t.Fatal(err)
		}
		event := &pipeline.Event{Root: root, SourceName: getLogFilename("k8s", item), Size: len(part)}
		pipeline.CreateNestedField(event.Root, []string{"k8s_pod"}).MutateToString(string(item.PodName))
		pipeline.CreateNestedField(event.Root, []string{"k8s_namespace"}).MutateToString(string(item.Namespace))
		pipeline.CreateNestedField(event.Root, []string{"k8s_container"}).MutateToString(string(item.ContainerName))
		pipeline.CreateNestedField(event.Root, []string{"k8s_container_id"}).MutateToString(string(item.ContainerID))
		return event
	}

	// a run of partial chunks that overflows max_event_size=20 (discard mode) ...
	for i, part := range []string{`{"log":"some "}`, `{"log":"other long long long long "}`} {
		if got := plugin.Do(newEvent(part)); got != pipeline.ActionCollapse {
			t.Fatalf("setup: chunk %d %s: action result %v, want ActionCollapse", i, part, got)
		}
	}
	// ... and never ends: the stream time-out arrives and flushes (drops) the run
	timeout := &pipeline.Event{SourceName: getLogFilename("k8s", item)}
	timeout.SetTimeoutKind()
	if got := plugin.Do(timeout); got != pipeline.ActionDiscard {
		t.Fatalf("setup: time-out event: action result %v, want ActionDiscard", got)
	}

	// the next event is a complete line of its own
	const line = `{"log":"hello\n"}`
	event := newEvent(line)
	res := plugin.Do(event)
	log := event.Root.Dig("log").AsString()
	if res != pipeline.ActionPass || log != "hello\n" {
		t.Errorf("REPLAY-FAIL k8s multiline, max_event_size=20 (discard mode), events [\"some \", \"other long long long long \" (overflow), time-out, \"hello\\n\"]: the complete line after the time-out got action result %d (0 = ActionPass, 2 = ActionDiscard) with log %q; want ActionPass with log \"hello\\n\" unchanged (skipNextEvent survived the time-out)",
			res, log)
	}
}
