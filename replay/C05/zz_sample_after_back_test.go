package pipeline

// Replay canary (C05: "no event object is ever owned by two holders at once").  With an action sample watcher
// active (the /sample debug endpoint), doActions returned a discarded / collapsed event to the pool (finalize) and
// only then let the watcher encode event.Root - while another reader may already be decoding its next record into
// the same pooled event.  (Probe written by an independent seeding sub-agent, adopted here.)

import (
	"fmt"
	"strings"
	"testing"
	"time"

	"github.com/prometheus/client_golang/prometheus"
	"go.uber.org/zap"
)

type verifProbeInput struct{}

func (*verifProbeInput) Start(_ AnyConfig, _ *InputPluginParams) {}
func (*verifProbeInput) Stop()                                   {}
func (*verifProbeInput) Commit(_ *Event)                         {}
func (*verifProbeInput) PassEvent(_ *Event) bool                 { return true }

type verifProbeDiscard struct{}

func (*verifProbeDiscard) Start(_ AnyConfig, _ *ActionPluginParams) {}
func (*verifProbeDiscard) Stop()                                    {}
func (*verifProbeDiscard) Do(_ *Event) ActionResult                 { return ActionDiscard }

type verifProbeOut struct{ c OutputPluginController }

func (o *verifProbeOut) Start(_ AnyConfig, p *OutputPluginParams) { o.c = p.Controller }
func (o *verifProbeOut) Stop()                                    {}
func (o *verifProbeOut) Out(e *Event)                             { o.c.Commit(e) }

func TestVerifSampleReadsLiveEvent(t *testing.T) {
	settings := &Settings{
		Capacity: 1, Decoder: "json", Pool: PoolTypeStd, AvgEventSize: 1024, StreamField: "stream",
		EventTimeout: time.Second, MaintenanceInterval: time.Minute,
		Antispam: AntispamSettings{Threshold: -1, MaintenanceInterval: time.Minute},
		Metric:   &MetricSettings{HoldDuration: DefaultMetricHoldDuration, MaxLabelValueLength: DefaultMetricMaxLabelValueLength},
	}
	p := New("probe", settings, prometheus.NewRegistry(), zap.NewNop())
	p.DisableParallelism()
	p.SetInput(&InputPluginInfo{PluginStaticInfo: &PluginStaticInfo{Type: "i"}, PluginRuntimeInfo: &PluginRuntimeInfo{Plugin: &verifProbeInput{}}})
	p.AddAction(&ActionPluginStaticInfo{PluginStaticInfo: &PluginStaticInfo{Type: "d", Factory: func() (AnyPlugin, AnyConfig) { return &verifProbeDiscard{}, nil }}})
	p.SetOutput(&OutputPluginInfo{PluginStaticInfo: &PluginStaticInfo{Type: "o"}, PluginRuntimeInfo: &PluginRuntimeInfo{Plugin: &verifProbeOut{}}})
	p.Start()
	defer p.Stop()

	stop := make(chan struct{})
	for g := 0; g < 4; g++ {
		go func(g int) {
			for i := 0; ; i++ {
				select {
				case <-stop:
					return
				default:
				}
				pad := strings.Repeat("x", (i%7)*50)
				p.In(SourceID(g), "probe", NewOffsets(int64(i), nil), []byte(fmt.Sprintf(`{"g":%d,"i":%d,"pad":"%s"}`, g, i, pad)), false, nil)
			}
		}(g)
	}
	defer close(stop)

	mismatch := 0
	for n := 0; n < 3000; n++ {
		s, err := p.Procs[0].actionWatcher.watch(0, time.Second)
		if err != nil {
			continue
		}
		if string(s.eventBefore) != string(s.eventAfter) {
			mismatch++
			if mismatch <= 3 {
				t.Logf("discarded event sample differs:\n before=%s\n after =%s", s.eventBefore, s.eventAfter)
			}
		}
	}
	if mismatch > 0 {
		t.Fatalf("REPLAY-FAIL %d samples: eventAfter was read from an event that already belongs to another reader", mismatch)
	}
}
