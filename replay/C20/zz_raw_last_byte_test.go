package pipeline_test

// Replay canary (C20: "records within the limit are never altered"): decoder raw and an input that hands over
// records without a trailing newline (kafka, http, socket, journalctl - checkInputBytes supports both forms).
// The raw branch of Pipeline.In dropped the last byte unconditionally, taking it for the newline.

import (
	"strings"
	"sync"
	"testing"
	"time"

	"github.com/ozontech/file.d/pipeline"
	"github.com/ozontech/file.d/plugin/input/fake"
	"github.com/ozontech/file.d/plugin/output/devnull"
	"github.com/ozontech/file.d/test"
	"github.com/prometheus/client_golang/prometheus"
	"go.uber.org/zap"
)

func TestVerifRawKeepsRecordBytes(t *testing.T) {
	settings := &pipeline.Settings{
		Capacity: 16, MaintenanceInterval: time.Second * 5, EventTimeout: pipeline.DefaultEventTimeout,
		Antispam:     pipeline.AntispamSettings{Threshold: pipeline.DefaultAntispamThreshold},
		AvgEventSize: 2048, MetaCacheSize: 32, StreamField: "stream", Decoder: "raw",
		Metric: &pipeline.MetricSettings{HoldDuration: pipeline.DefaultMetricHoldDuration, MaxLabelValueLength: pipeline.DefaultMetricMaxLabelValueLength},
	}
	p := pipeline.New("verif_raw", settings, prometheus.NewRegistry(), zap.NewNop())
	p.DisableParallelism()
	anyPlugin, _ := fake.Factory()
	input := anyPlugin.(*fake.Plugin)
	p.SetInput(&pipeline.InputPluginInfo{PluginStaticInfo: &pipeline.PluginStaticInfo{Type: "fake"}, PluginRuntimeInfo: &pipeline.PluginRuntimeInfo{Plugin: input}})
	anyPlugin, _ = devnull.Factory()
	output := anyPlugin.(*devnull.Plugin)
	p.SetOutput(&pipeline.OutputPluginInfo{PluginStaticInfo: &pipeline.PluginStaticInfo{Type: "devnull"}, PluginRuntimeInfo: &pipeline.PluginRuntimeInfo{Plugin: output}})
	p.Start()
	defer p.Stop()

	var got []string
	wg := &sync.WaitGroup{}
	output.SetOutFn(func(e *pipeline.Event) {
		got = append(got, strings.Clone(e.Root.Dig("message").AsString()))
		wg.Done()
	})
	for i, rec := range []string{"with newline\n", "no newline"} {
		wg.Add(1)
		input.In(0, "src", test.NewOffset(int64(i)), []byte(rec))
		wg.Wait()
	}
	if len(got) != 2 || got[0] != "with newline" || got[1] != "no newline" {
		t.Fatalf("REPLAY-FAIL raw decoder altered a record: %q, want [\"with newline\" \"no newline\"]", got)
	}
}
