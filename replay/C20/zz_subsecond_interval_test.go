package fd

// Replay canary (C20): the antispam threshold is configured per second and converted to "per maintenance interval".
// With a sub-second interval the conversion factor int(interval / time.Second) was 0: every positive threshold became
// 0, which the antispammer reads as "block everything" - a source was banned without a single event over its threshold.

import (
	"testing"

	"github.com/bitly/go-simplejson"
)

func TestVerifAntispamSubSecondInterval(t *testing.T) {
	js, err := simplejson.NewJson([]byte(`{"antispam":{"threshold":100,"maintenance_interval":"500ms",
		"rules":[{"name":"r","threshold":10,"do_if":{"op":"equal","field":"a","values":["b"]}}]}}`))
	if err != nil {
		t.Fatal(err)
	}
	s := extractPipelineParams(js)
	if s.Antispam.Threshold < 1 {
		t.Errorf("REPLAY-FAIL threshold 100/s with maintenance_interval 500ms became %d (0 blocks every event, want 50)", s.Antispam.Threshold)
	}
	if len(s.Antispam.Rules) != 1 || s.Antispam.Rules[0].Threshold < 1 {
		t.Errorf("REPLAY-FAIL rule threshold 10/s with maintenance_interval 500ms became %+v (0 blocks every event, want 5)", s.Antispam.Rules)
	}
	js, _ = simplejson.NewJson([]byte(`{"antispam":{"threshold":100,"maintenance_interval":"5s"}}`))
	if s := extractPipelineParams(js); s.Antispam.Threshold != 500 {
		t.Errorf("REPLAY-FAIL threshold 100/s with maintenance_interval 5s became %d, want 500", s.Antispam.Threshold)
	}
}
