package matchrule

// Replay canary (C20 / C13): a match rule written without values (an antispam exception, a mask match rule) is
// prepared like any other; it matches nothing.  Prepare used to return early without marking the rule prepared,
// and Match panicked with "rule must be prepared" on the first event.

import "testing"

func TestVerifRuleWithoutValuesDoesNotPanic(t *testing.T) {
	defer func() {
		if r := recover(); r != nil {
			t.Fatalf("REPLAY-FAIL Match panicked on a prepared rule without values: %v", r)
		}
	}()
	rs := RuleSet{Name: "e", Rules: []Rule{{Mode: ModeContains}}}
	rs.Prepare()
	if rs.Match([]byte("any event")) {
		t.Fatalf("REPLAY-FAIL a rule without values matched")
	}
}
