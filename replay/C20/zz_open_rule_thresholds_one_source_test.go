package antispam

// Open finding C20 ("a source is banned only if at least its threshold of events arrived since the previous
// maintenance round").
// IsSpam compares the single per-source counter with the threshold of the rule the CURRENT event matches, but
// sourcesThresholds[id] is written only when the source is created (by the rule the FIRST event matched), and
// Maintenance decays the counter by that first-seen threshold only.  A source whose events match rules with
// different thresholds keeps a counter above the small threshold after the round is over, so in later rounds a
// single event of the small-threshold kind is refused although nothing was ever banned.

import (
	"testing"
	"time"

	"github.com/ozontech/file.d/pipeline/doif"
)

func TestVerifOpenRuleThresholdsOneSource(t *testing.T) {
	const interval = time.Second
	a := newAntispammer(1000, 4, interval) // global threshold 1000, unban_iterations 4

	mkRule := func(name, prefix string, threshold int) Rule {
		c, err := doif.NewFromMap(map[string]any{"op": "prefix", "field": "event", "values": []any{prefix}})
		if err != nil {
			t.Fatal(err)
		}
		return Rule{Name: name, Threshold: threshold, DoIfChecker: c}
	}
	a.rules = Rules{mkRule("A", "A", 2), mkRule("B", "B", 100)}

	t0 := time.Date(2024, 5, 6, 7, 8, 0, 0, time.UTC)
	const id, name = "src-1", "file.log"

	// round 1: one A event (rule threshold 2), then 50 B events (rule threshold 100), all within 500 ms.
	// No threshold is reached by its events, every event is accepted, nothing is banned.
	if a.IsSpam(id, name, false, []byte("A first"), t0, nil) {
		t.Fatalf("setup: the very first A event was refused")
	}
	for i := 1; i <= 50; i++ {
		if a.IsSpam(id, name, false, []byte("B event"), t0.Add(time.Duration(i)*10*time.Millisecond), nil) {
			t.Fatalf("setup: B event %d of 50 was refused under rule threshold 100", i)
		}
	}
	a.Maintenance()

	// rounds 2..: exactly one A event per round, each a full maintenance interval after the previous event.
	// One event since the previous maintenance round is below every threshold (2, 100, 1000): it must be accepted.
	refusedRounds := 0
	firstRefused := 0
	last := t0.Add(500 * time.Millisecond)
	for round := 2; round <= 6; round++ {
		last = last.Add(interval)
		if a.IsSpam(id, name, false, []byte("A again"), last, nil) {
			refusedRounds++
			if firstRefused == 0 {
				firstRefused = round
			}
		}
		a.Maintenance()
	}
	if refusedRounds != 0 {
		t.Errorf("REPLAY-FAIL rules A(prefix \"A\", threshold 2), B(prefix \"B\", threshold 100), global 1000, unban_iterations 4, one source: round 1 = 1 A event + 50 B events (all accepted, no ban), Maintenance; then ONE A event per round was refused in %d of rounds 2..6 (first in round %d) although only 1 event arrived since the previous maintenance round (threshold 2); the counter is decayed by the first-seen threshold 2 only (sourcesThresholds set at source creation)",
			refusedRounds, firstRefused)
	}
}
