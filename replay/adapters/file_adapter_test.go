package file

// Replay adapter for plugin/input/file (see decoder_adapter_test.go). Oracle: no panic.

import (
	"encoding/json"
	"fmt"
	"os"
	"strconv"
	"testing"
)

type verifReplayInput struct {
	Func   string            `json:"func"`
	Inputs map[string]string `json:"inputs"`
}

func (r *verifReplayInput) str(name string) string {
	n, _ := strconv.Atoi(r.Inputs[name+".len"])
	if n < 0 || n > 4096 {
		n = 0
	}
	out := make([]byte, n)
	for i := range out {
		v, err := strconv.Atoi(r.Inputs[fmt.Sprintf("%s[%d]", name, i)])
		if err != nil {
			v = '?'
		}
		out[i] = byte(v)
	}
	return string(out)
}

func TestVerifReplayModel(t *testing.T) {
	raw, err := os.ReadFile(os.Getenv("VERIF_REPLAY_INPUT"))
	if err != nil {
		t.Skip("no replay input")
	}
	var in verifReplayInput
	if err := json.Unmarshal(raw, &in); err != nil {
		t.Fatal(err)
	}
	content, prefix, s := in.str("content"), in.str("prefix"), in.str("s")
	length, _ := strconv.Atoi(in.Inputs["length"])
	defer func() {
		if r := recover(); r != nil {
			t.Errorf("REPLAY-FAIL %s(content=%q prefix=%q s=%q length=%d): panic: %v", in.Func, content, prefix, s, length, r)
		}
	}()
	o := &offsetDB{}
	switch in.Func {
	case "(*offsetDB).parseLine":
		_, _, _ = o.parseLine(content, prefix)
	case "(*offsetDB).parseOptionalLine":
		_, _, _ = o.parseOptionalLine(content, prefix)
	case "(*offsetDB).parseStreams":
		_, _ = o.parseStreams(content, streamsOffsets{})
	case "safeSubstring":
		_ = safeSubstring(s, length)
	default:
		t.Skip("no adapter for " + in.Func)
	}
}
