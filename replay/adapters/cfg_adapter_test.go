package cfg

// Replay adapter for package cfg (see decoder_adapter_test.go). Oracle: no panic.

import (
	"encoding/json"
	"fmt"
	"os"
	"strconv"
	"testing"
)

type verifReplayInput struct {
	Func   string            `json:"func"`
	Inputs map[string]string `json:"inputs"`
}

func (r *verifReplayInput) str(name string) string {
	n, _ := strconv.Atoi(r.Inputs[name+".len"])
	if n < 0 || n > 4096 {
		n = 0
	}
	out := make([]byte, n)
	for i := range out {
		v, err := strconv.Atoi(r.Inputs[fmt.Sprintf("%s[%d]", name, i)])
		if err != nil {
			v = '?'
		}
		out[i] = byte(v)
	}
	return string(out)
}

func TestVerifReplayModel(t *testing.T) {
	raw, err := os.ReadFile(os.Getenv("VERIF_REPLAY_INPUT"))
	if err != nil {
		t.Skip("no replay input")
	}
	var in verifReplayInput
	if err := json.Unmarshal(raw, &in); err != nil {
		t.Fatal(err)
	}
	sel := in.str("selector")
	defer func() {
		if r := recover(); r != nil {
			t.Errorf("REPLAY-FAIL %s(%q): panic: %v", in.Func, sel, r)
		}
	}()
	switch in.Func {
	case "ParseFieldSelector":
		_ = ParseFieldSelector(sel)
	default:
		t.Skip("no adapter for " + in.Func)
	}
}
