package kafka

// Replay adapter for plugin/input/kafka. Oracle: the property itself (C10) — disassembling an assembled
// source id gives back the consumer index and partition; no panic.

import (
	"encoding/json"
	"os"
	"strconv"
	"testing"

	"github.com/twmb/franz-go/pkg/kgo"
)

type verifReplayInput struct {
	Func   string            `json:"func"`
	Inputs map[string]string `json:"inputs"`
}

func TestVerifReplayModel(t *testing.T) {
	raw, err := os.ReadFile(os.Getenv("VERIF_REPLAY_INPUT"))
	if err != nil {
		t.Skip("no replay input")
	}
	var in verifReplayInput
	if err := json.Unmarshal(raw, &in); err != nil {
		t.Fatal(err)
	}
	defer func() {
		if r := recover(); r != nil {
			t.Errorf("REPLAY-FAIL %s(%v): panic: %v", in.Func, in.Inputs, r)
		}
	}()
	get := func(names ...string) int64 {
		for _, n := range names {
			if v, ok := in.Inputs[n]; ok {
				x, _ := strconv.ParseInt(v, 10, 64)
				return x
			}
		}
		return 0
	}
	switch in.Func {
	case "disassembleOffset", "assembleOffset":
		off, epoch := get("ghost:go_", "message.Offset"), get("ghost:ge", "message.LeaderEpoch")
		if off < 0 || off >= 1<<47 || epoch < 0 || epoch >= 1<<16 {
			t.Skip("outside the contract's precondition")
		}
		got := disassembleOffset(assembleOffset(&kgo.Record{Offset: off, LeaderEpoch: int32(epoch)}))
		if got.Offset != off+1 || got.Epoch != int32(epoch) {
			t.Errorf("REPLAY-FAIL offset round trip: record (offset=%d epoch=%d) commits as (offset=%d epoch=%d), want offset+1 and the same epoch", off, epoch, got.Offset, got.Epoch)
		}
	case "assembleSourceID", "disassembleSourceID":
		index, part := int(get("ghost:gi", "index")), get("ghost:gq", "partition")
		if index < 0 || index >= 1<<47 || part < 0 || part >= 1<<16 {
			t.Skip("outside the contract's precondition")
		}
		i2, p2 := disassembleSourceID(assembleSourceID(index, int32(part)))
		if i2 != index || p2 != int32(part) {
			t.Errorf("REPLAY-FAIL source id round trip: (%d,%d) -> (%d,%d)", index, part, i2, p2)
		}
	default:
		t.Skip("no adapter for " + in.Func)
	}
}
