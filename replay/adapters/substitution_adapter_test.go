package substitution

// Replay adapter for cfg/substitution (see decoder_adapter_test.go). Oracle: no panic, and the result of a cut /
// trim_to filter lies inside the value it was given.

import (
	"encoding/json"
	"fmt"
	"os"
	"strconv"
	"testing"
)

type verifReplayInput struct {
	Func   string            `json:"func"`
	Inputs map[string]string `json:"inputs"`
}

func (r *verifReplayInput) bytes(name string) []byte {
	n, _ := strconv.Atoi(r.Inputs[name+".len"])
	if n < 0 || n > 4096 {
		n = 0
	}
	out := make([]byte, n)
	for i := range out {
		v, err := strconv.Atoi(r.Inputs[fmt.Sprintf("%s[%d]", name, i)])
		if err != nil {
			v = '?'
		}
		out[i] = byte(v)
	}
	return out
}

func (r *verifReplayInput) num(name string) int {
	v, _ := strconv.Atoi(r.Inputs[name])
	return v
}

func TestVerifReplayModel(t *testing.T) {
	raw, err := os.ReadFile(os.Getenv("VERIF_REPLAY_INPUT"))
	if err != nil {
		t.Skip("no replay input")
	}
	var in verifReplayInput
	if err := json.Unmarshal(raw, &in); err != nil {
		t.Fatal(err)
	}
	src := in.bytes("src")
	full := make([]byte, len(src)) // exactly full buffer: a reslice past the value panics
	copy(full, src)
	var f FieldFilter
	switch in.Func {
	case "(*CutFilter).Apply":
		if in.num("f.count") < 0 {
			t.Skip("outside the contract's precondition")
		}
		f = &CutFilter{mode: cutMode(in.num("f.mode")), count: in.num("f.count")}
	case "(*TrimToFilter).Apply":
		f = &TrimToFilter{mode: trimMode(in.num("f.mode")), cutset: in.bytes("f.cutset")}
	default:
		t.Skip("no adapter for " + in.Func)
	}
	defer func() {
		if r := recover(); r != nil {
			t.Errorf("REPLAY-FAIL %s on %q: panic: %v", in.Func, src, r)
		}
	}()
	got := f.Apply(full, full)
	if len(got) > len(full) {
		t.Errorf("REPLAY-FAIL %s on %q: result %q reaches past the value", in.Func, src, got)
	}
}
