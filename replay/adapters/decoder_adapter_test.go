package decoder

// Replay adapter (run through `go test -overlay`): rebuilds a concrete input from a verifier model
// (file named by $VERIF_REPLAY_INPUT) and runs the REAL decoder on it.  Oracle: no panic.

import (
	"encoding/json"
	"fmt"
	"os"
	"strconv"
	"testing"
)

type replayInput struct {
	Func   string            `json:"func"`
	Inputs map[string]string `json:"inputs"`
}

func (r *replayInput) bytes(name string) []byte {
	n, _ := strconv.Atoi(r.Inputs[name+".len"])
	if n < 0 || n > 4096 {
		n = 0
	}
	out := make([]byte, n)
	for i := range out {
		v, err := strconv.Atoi(r.Inputs[fmt.Sprintf("%s[%d]", name, i)])
		if err != nil {
			v = '?'
		}
		out[i] = byte(v)
	}
	return out
}

func TestVerifReplayModel(t *testing.T) {
	raw, err := os.ReadFile(os.Getenv("VERIF_REPLAY_INPUT"))
	if err != nil {
		t.Skip("no replay input")
	}
	var in replayInput
	if err := json.Unmarshal(raw, &in); err != nil {
		t.Fatal(err)
	}
	data := in.bytes("data")
	defer func() {
		if r := recover(); r != nil {
			t.Errorf("REPLAY-FAIL %s(%q): panic: %v", in.Func, data, r)
		}
	}()
	switch in.Func {
	case "DecodeCRI":
		_, _ = DecodeCRI(data)
	case "DecodePostgres":
		_, _ = DecodePostgres(data)
	case "(*nginxErrorDecoder).Decode", "(*nginxErrorDecoder).extractCustomFields", "spaceSplit":
		for _, withCustom := range []bool{false, true} {
			d, _ := NewNginxErrorDecoder(Params{"nginx_with_custom_fields": withCustom})
			_, _ = d.Decode(append([]byte(nil), data...))
		}
		_ = spaceSplit(data, 5)
	case "(*syslogRFC3164Decoder).Decode", "(*syslogRFC3164Decoder).validateTimestamp", "syslogParsePriority", "atoi", "checkNumber":
		d, _ := NewSyslogRFC3164Decoder(nil)
		_, _ = d.Decode(data)
		_, _, _ = syslogParsePriority(data)
	case "(*syslogRFC5424Decoder).Decode", "(*syslogRFC5424Decoder).validateTimestamp", "(*syslogRFC5424Decoder).parseStructuredData", "(*syslogRFC5424Decoder).readUntilSpaceOrNilValue":
		d, _ := NewSyslogRFC5424Decoder(nil)
		_, _ = d.Decode(data)
		if sd, ok := d.(*syslogRFC5424Decoder); ok {
			_, _, _ = sd.parseStructuredData(data)
			_ = sd.validateTimestamp(in.bytes("ts"))
		}
	case "jsonCutLen":
		str := string(in.bytes("s"))
		limit, _ := strconv.Atoi(in.Inputs["limit"])
		r := jsonCutLen(str, limit)
		if r < 0 || r > len(str) || (limit >= 0 && r > limit) || (limit < 0 && r != 0) {
			t.Errorf("REPLAY-FAIL jsonCutLen(%q, %d) = %d: outside the string or over the limit", str, limit, r)
		}
	case "(*CSVDecoder).Decode":
		d, _ := NewCSVDecoder(nil)
		if v, err := strconv.Atoi(in.Inputs["d.params.delimiter"]); err == nil {
			d.(*CSVDecoder).params.delimiter = byte(v)
		}
		_, _ = d.Decode(data)
	default:
		t.Skip("no adapter for " + in.Func)
	}
}
