package k8s

// Replay adapter for plugin/input/k8s. Oracle for escapedCutLen: the kept length is within the string and the limit.

import (
	"encoding/json"
	"fmt"
	"os"
	"strconv"
	"testing"
)

type verifReplayInput struct {
	Func   string            `json:"func"`
	Inputs map[string]string `json:"inputs"`
}

func TestVerifReplayModel(t *testing.T) {
	raw, err := os.ReadFile(os.Getenv("VERIF_REPLAY_INPUT"))
	if err != nil {
		t.Skip("no replay input")
	}
	var in verifReplayInput
	if err := json.Unmarshal(raw, &in); err != nil {
		t.Fatal(err)
	}
	if in.Func != "escapedCutLen" {
		t.Skip("no adapter for " + in.Func)
	}
	n, _ := strconv.Atoi(in.Inputs["s.len"])
	if n < 0 || n > 4096 {
		n = 0
	}
	b := make([]byte, n)
	for i := range b {
		v, err := strconv.Atoi(in.Inputs[fmt.Sprintf("s[%d]", i)])
		if err != nil {
			v = '?'
		}
		b[i] = byte(v)
	}
	limit, _ := strconv.Atoi(in.Inputs["limit"])
	defer func() {
		if r := recover(); r != nil {
			t.Errorf("REPLAY-FAIL escapedCutLen(%q, %d): panic: %v", b, limit, r)
		}
	}()
	r := escapedCutLen(string(b), limit)
	if r < 0 || r > len(b) || (limit >= 0 && r > limit) || (limit < 0 && r != 0) {
		t.Errorf("REPLAY-FAIL escapedCutLen(%q, %d) = %d: outside the string or over the limit", b, limit, r)
	}
}
