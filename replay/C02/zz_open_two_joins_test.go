// Open finding replay for C02 ("per-stream commits arrive in read order, once per event"), clause
// "commit notifications reach the input plugin in exactly the order the events were read".
// Mechanism: two join actions in a row. E1(10) starts a join in both. E2(20) ends the first join:
// join0.flush -> Propagate(E1) -> processSequence(E1) -> join1 HOLDS E1 -> processor.processEvent sees a
// busy action and calls stream.blockGet() *inside* Propagate, i.e. while E2 is still in the middle of
// join0.Do. That nested loop takes E3(30) off the same stream, runs it through all actions and commits it;
// only then the stack unwinds and E2 continues. One stream, read order 10,20,30, committed 10,30,20.
package join

import (
	"sync"
	"testing"
	"time"

	"github.com/ozontech/file.d/cfg"
	"github.com/ozontech/file.d/pipeline"
	"github.com/ozontech/file.d/test"
)

func TestVerifOpenTwoJoinsCommitOrder(t *testing.T) {
	c0 := test.NewConfig(&Config{Field: "a", Start: cfg.Regexp(`/^S/`), Continue: cfg.Regexp(`/^c/`)}, nil)
	c1 := test.NewConfig(&Config{Field: "b", Start: cfg.Regexp(`/^S/`), Continue: cfg.Regexp(`/^c/`)}, nil)
	actions := append(
		test.NewActionPluginStaticInfo(factory, c0, pipeline.MatchModeAnd, nil, false),
		test.NewActionPluginStaticInfo(factory, c1, pipeline.MatchModeAnd, nil, false)...,
	)
	// not "parallel": a single processor, so the order is a property of the code, not of a race
	p, input, _ := test.NewPipelineMock(actions, "short_event_timeout")

	mu := sync.Mutex{}
	var offs []int64
	input.SetCommitFn(func(e *pipeline.Event) {
		mu.Lock()
		offs = append(offs, e.Offset)
		mu.Unlock()
	})
	snapshot := func() []int64 {
		mu.Lock()
		defer mu.Unlock()
		return append([]int64(nil), offs...)
	}

	// one source, one stream, read order 10, 20, 30
	input.In(1, "f", test.NewOffset(10), []byte(`{"a":"S1","b":"S1"}`))
	input.In(1, "f", test.NewOffset(20), []byte(`{"a":"x","b":"x"}`))
	input.In(1, "f", test.NewOffset(30), []byte(`{"a":"y","b":"y"}`))

	deadline := time.Now().Add(5 * time.Second)
	for len(snapshot()) < 3 && time.Now().Before(deadline) {
		time.Sleep(2 * time.Millisecond)
	}

	stopped := make(chan struct{})
	go func() { p.Stop(); close(stopped) }()
	select {
	case <-stopped:
	case <-time.After(5 * time.Second):
		t.Errorf("REPLAY-FAIL pipeline.Stop did not return within 5s after two chained joins got offsets 10,20,30")
	}

	got := snapshot()
	want := []int64{10, 20, 30}
	if len(got) != len(want) {
		t.Fatalf("REPLAY-FAIL two chained join actions, one stream read in order %v: got %d commit notifications %v, want exactly one per event in read order %v",
			want, len(got), got, want)
	}
	for i := range want {
		if got[i] != want[i] {
			t.Fatalf("REPLAY-FAIL two chained join actions, one stream read in order %v: commits reached the input as %v, want read order %v (strictly increasing offsets)",
				want, got, want)
		}
	}
}
