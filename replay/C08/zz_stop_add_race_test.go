package pipeline

// Schedule replay (C08): "stopping a batcher while events are still being added never panics".
// The real trySendBatchAndUnlock releases b.mu and only then sends on fullBatches; Stop closes fullBatches under
// b.mu.  The overlay copy of batch.go used for this replay (made by stop_add_race.sh) is the real file with ONE
// line added between the unlock and the send: a call of verifPauseBeforeSend(), which parks the adding goroutine
// so that Stop runs in the gap.

import (
	"context"
	"sync"
	"testing"
	"time"

	"github.com/ozontech/file.d/metric"
	"github.com/prometheus/client_golang/prometheus"
)

var (
	verifAtPause   = make(chan struct{})
	verifResume    = make(chan struct{})
	verifPauseOnce sync.Once
	verifPauseOn   bool
)

func verifPauseBeforeSend() {
	if !verifPauseOn {
		return
	}
	verifPauseOnce.Do(func() {
		close(verifAtPause)
		<-verifResume
	})
}

func TestVerifStopWhileAdding(t *testing.T) {
	tail := &batcherTail{commit: func(*Event) {}}
	b := NewBatcher(BatcherOptions{
		PipelineName: "verif", OutputType: "verif", Controller: tail,
		OutFn:          func(*WorkerData, *Batch) {},
		Workers:        1,
		BatchSizeCount: 1,
		FlushTimeout:   time.Hour,
		MetricCtl:      metric.NewCtl("", prometheus.NewRegistry(), time.Minute, 0),
	})
	b.Start(context.Background())
	verifPauseOn = true

	panicked := make(chan interface{}, 1)
	go func() {
		defer func() { panicked <- recover() }()
		b.Add(&Event{SeqID: 1}) // fills the batch (count limit 1): unlock, pause, send
	}()
	select {
	case <-verifAtPause:
	case <-time.After(5 * time.Second):
		t.Skip("the pause point was not reached (overlay not applied?)")
	}
	stopped := make(chan struct{})
	go func() { b.Stop(); close(stopped) }()
	time.Sleep(200 * time.Millisecond) // Stop takes b.mu, marks shouldStop, closes fullBatches, then waits for the workers
	close(verifResume)
	if r := <-panicked; r != nil {
		t.Fatalf("REPLAY-FAIL Add panicked while Stop was running: %v", r)
	}
	<-stopped
}
