#!/bin/sh
# C08 schedule replay: Add is parked between b.mu.Unlock() and the send on fullBatches while Stop runs.
# Exit 0 iff Add does not panic.  The pause is the only change to the real batch.go (overlay copy, nothing written to the repo).
# usage: stop_add_race.sh [repo]   (default /repo)
set -e
REPO=${1:-/repo}
. /verif/env.sh
T=$(mktemp -d)
trap 'rm -rf "$T"' EXIT
# insert the pause before the send, wherever the send is
awk '{ if ($0 ~ /b\.fullBatches <- batch/) { print "\tverifPauseBeforeSend()" } print }' "$REPO/pipeline/batch.go" > "$T/batch.go"
grep -q verifPauseBeforeSend "$T/batch.go" || { echo "send statement not found (code changed)"; exit 0; }
echo "{\"Replace\":{\"$REPO/pipeline/batch.go\":\"$T/batch.go\",\"$REPO/pipeline/zz_stop_add_race_test.go\":\"/verif/replay/C08/zz_stop_add_race_test.go\"}}" > "$T/ov.json"
cd "$REPO" && go test -overlay "$T/ov.json" -vet=off -count=1 -timeout 120s -run '^TestVerifStopWhileAdding$' ./pipeline/ > "$T/out" 2>&1 || true
grep -v '^{' "$T/out" | tail -8
if grep -q "REPLAY-FAIL" "$T/out"; then exit 1; fi
grep -q "^ok" "$T/out"
