// Open finding replay for C10 ("kafka input never acknowledges a record that is not finished"), clause
// "the offset file.d marks for commit ... never passes a record of that partition that has been neither
// acknowledged by the output nor deliberately dropped".
// Mechanism: Plugin.Start turns on UseSpread + DisableStreams, so Pipeline.streamEvent routes records of ONE
// partition to different streams/processors (event.SeqID % procCount). Commits for a partition then reach
// Plugin.Commit in completion order, and Commit marks offset+1 unconditionally (kgo keeps the max head).
// Record 1001 finishing before record 1000 makes the mark 1002 while 1000 is still inside an action.
// (Pool "std" is used because its ring makes the stale SeqIDs, hence the spread, exactly predictable; with the
// default "low_memory" pool the same overtaking shows up, only on records picked by sync.Pool reuse.)
package kafka

import (
	"fmt"
	"sync"
	"testing"
	"time"

	"github.com/ozontech/file.d/pipeline"
	"github.com/ozontech/file.d/plugin/output/devnull"
	"github.com/ozontech/file.d/test"
	"github.com/prometheus/client_golang/prometheus"
	"github.com/twmb/franz-go/pkg/kgo"
	"go.uber.org/zap"
)

const (
	vopenC10Topic     = "t"
	vopenC10Partition = int32(0)
	vopenC10Epoch     = int32(1)
	vopenC10Slow      = int64(1000) // record that is held inside an action
	vopenC10Fast      = int64(1001) // next record of the same partition
)

// vopenC10State is the observed history: which record offsets the output has acknowledged, and the kgo mark of
// t/0 right after every Plugin.Commit.
type vopenC10State struct {
	mu         sync.Mutex
	fed        []int64 // record offsets handed to the pipeline, in partition order
	acked      map[int64]bool
	commits    int
	violation  string
	fastCommit chan struct{} // closed when record vopenC10Fast has been committed
	once       sync.Once
}

// vopenC10Input is the real kafka Plugin (real Commit, real packing, real kgo client bookkeeping) with a Start
// that skips only the broker connection (NewClient pings a broker and exits the process without one).
type vopenC10Input struct {
	*Plugin
	st *vopenC10State
}

func (in *vopenC10Input) Start(_ pipeline.AnyConfig, params *pipeline.InputPluginParams) {
	p := in.Plugin
	p.controller = params.Controller
	p.logger = params.Logger
	p.config = &Config{Topics: []string{vopenC10Topic}}
	p.idByTopic = map[string]int{vopenC10Topic: 0}
	client, err := kgo.NewClient( // never connects: nothing listens there, and nothing is polled
		kgo.SeedBrokers("127.0.0.1:1"),
		kgo.ConsumerGroup("vopen_c10"),
		kgo.ConsumeTopics(vopenC10Topic),
		kgo.AutoCommitMarks(),
	)
	if err != nil {
		panic(err)
	}
	p.client = client
	// exactly what Plugin.Start does (kafka.go:303-304)
	p.controller.UseSpread()
	p.controller.DisableStreams()
}

func (in *vopenC10Input) Stop() { in.Plugin.client.Close() }

func (in *vopenC10Input) Commit(event *pipeline.Event) {
	recOffset := event.Offset >> 16
	in.Plugin.Commit(event) // the code under test: MarkCommitOffsets(offset+1)
	head := in.Plugin.client.MarkedOffsets()[vopenC10Topic][vopenC10Partition]

	st := in.st
	st.mu.Lock()
	st.commits++
	if st.violation == "" {
		for _, off := range st.fed { // partition order
			if !st.acked[off] {
				if head.Offset > off {
					st.violation = fmt.Sprintf("after Commit(record offset %d) MarkedOffsets()[%q][%d]={Epoch:%d Offset:%d} while record offset %d of that partition is not acknowledged by the output (still inside an action)",
						recOffset, vopenC10Topic, vopenC10Partition, head.Epoch, head.Offset, off)
				}
				break
			}
		}
	}
	st.mu.Unlock()
	if recOffset == vopenC10Fast {
		st.once.Do(func() { close(st.fastCommit) })
	}
}

// vopenC10Hold keeps record vopenC10Slow inside the action chain until the later record has been committed, or
// 2s have passed (that is what happens on a tree where the later record cannot overtake it).
type vopenC10Hold struct{ st *vopenC10State }

func (a *vopenC10Hold) Start(pipeline.AnyConfig, *pipeline.ActionPluginParams) {}
func (a *vopenC10Hold) Stop()                                                  {}
func (a *vopenC10Hold) Do(event *pipeline.Event) pipeline.ActionResult {
	if event.Offset>>16 == vopenC10Slow {
		select {
		case <-a.st.fastCommit:
		case <-time.After(2 * time.Second):
		}
	}
	return pipeline.ActionPass
}

func TestVerifOpenSpreadCommitOrder(t *testing.T) {
	st := &vopenC10State{acked: map[int64]bool{}, fastCommit: make(chan struct{})}

	actions := test.NewActionPluginStaticInfo(
		func() (pipeline.AnyPlugin, pipeline.AnyConfig) { return &vopenC10Hold{st: st}, nil },
		nil, pipeline.MatchModeAnd, nil, false)
	// same settings as test.NewPipeline, plus pool "std" and a small capacity; parallelism is left on, so there
	// are GOMAXPROCS*2 (>=2) processors as in production
	const capacity = 8
	p := pipeline.New("vopen_c10", &pipeline.Settings{
		Capacity:            capacity,
		Pool:                pipeline.PoolTypeStd,
		MaintenanceInterval: time.Second * 5,
		EventTimeout:        pipeline.DefaultEventTimeout,
		Antispam:            pipeline.AntispamSettings{Threshold: pipeline.DefaultAntispamThreshold},
		AvgEventSize:        2048,
		MetaCacheSize:       32,
		StreamField:         "stream",
		Decoder:             "json",
		Metric: &pipeline.MetricSettings{
			HoldDuration:        pipeline.DefaultMetricHoldDuration,
			MaxLabelValueLength: pipeline.DefaultMetricMaxLabelValueLength,
		},
	}, prometheus.NewRegistry(), zap.NewNop())
	for _, a := range actions {
		p.AddAction(a)
	}
	outPlugin, _ := devnull.Factory()
	p.SetOutput(&pipeline.OutputPluginInfo{
		PluginStaticInfo:  &pipeline.PluginStaticInfo{Type: "devnull"},
		PluginRuntimeInfo: &pipeline.PluginRuntimeInfo{Plugin: outPlugin},
	})
	in := &vopenC10Input{Plugin: &Plugin{}, st: st}
	p.SetInput(&pipeline.InputPluginInfo{
		PluginStaticInfo:  &pipeline.PluginStaticInfo{Type: "kafka"},
		PluginRuntimeInfo: &pipeline.PluginRuntimeInfo{Plugin: in},
	})
	out := p.GetOutput().(interface {
		SetOutFn(func(event *pipeline.Event))
	})
	out.SetOutFn(func(e *pipeline.Event) { // output acknowledgement (devnull commits right after it)
		st.mu.Lock()
		st.acked[e.Offset>>16] = true
		st.mu.Unlock()
	})
	p.Start()

	// the real per-partition consumer loop feeds the pipeline (consumer.go pconsumer.consume)
	pc := &pconsumer{
		topic: vopenC10Topic, partition: vopenC10Partition, topicID: 0,
		quit: make(chan struct{}), done: make(chan struct{}), fetches: make(chan kgo.FetchTopicPartition, 4),
		controller: in.Plugin.controller, logger: zap.NewNop(),
	}
	go pc.consume()

	feed := func(from, to int64) { // one fetch with records from..to of partition t/0
		recs := make([]*kgo.Record, 0, to-from+1)
		st.mu.Lock()
		for off := from; off <= to; off++ {
			recs = append(recs, &kgo.Record{
				Topic: vopenC10Topic, Partition: vopenC10Partition, LeaderEpoch: vopenC10Epoch, Offset: off,
				Value: []byte(fmt.Sprintf(`{"o":%d}`, off)),
			})
			st.fed = append(st.fed, off)
		}
		st.mu.Unlock()
		pc.fetches <- kgo.FetchTopicPartition{Topic: vopenC10Topic, FetchPartition: kgo.FetchPartition{Partition: vopenC10Partition, Records: recs}}
	}
	waitCommits := func(n int, d time.Duration) int {
		deadline := time.Now().Add(d)
		for {
			st.mu.Lock()
			c := st.commits
			st.mu.Unlock()
			if c >= n || time.Now().After(deadline) {
				return c
			}
			time.Sleep(time.Millisecond)
		}
	}

	// Steady state: the pipeline has already seen one pool's worth (Capacity=8) of records of this partition,
	// offsets 992..999. streamEvent spreads by the SeqID an event carries from its previous use: these first
	// events are fresh (SeqID 0 -> all on stream 0, sequential, in order) and return to the ring with SeqID 1..8,
	// so the next two records go to streams 1%procs and 2%procs, which differ for every procs >= 2.
	const warm = capacity
	feed(vopenC10Slow-warm, vopenC10Slow-1)
	if c := waitCommits(warm, 10*time.Second); c != warm {
		t.Fatalf("warm-up: %d of %d records committed", c, warm)
	}

	// the history under test: one fetch with records 1000 and 1001 of partition t/0
	feed(vopenC10Slow, vopenC10Fast)
	got := waitCommits(warm+2, 10*time.Second)

	close(pc.quit)
	stopped := make(chan struct{})
	go func() { p.Stop(); close(stopped) }()
	select {
	case <-stopped:
	case <-time.After(5 * time.Second):
		t.Errorf("REPLAY-FAIL pipeline.Stop did not return within 5s")
	}

	st.mu.Lock()
	defer st.mu.Unlock()
	if st.violation != "" {
		t.Errorf("REPLAY-FAIL kafka partition %s/%d, records 1000 (slow action) and 1001 in one fetch, spread over %d processors: %s; want mark <= 1000 until record 1000 is finished",
			vopenC10Topic, vopenC10Partition, len(p.Procs), st.violation)
	}
	if got != warm+2 {
		t.Errorf("REPLAY-FAIL %d of %d records committed within the deadline", got, warm+2)
	}
}
