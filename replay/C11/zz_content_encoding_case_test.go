package http

// Replay canary (C11): content-coding values are case-insensitive (RFC 9110 8.4.1).  "Content-Encoding: GZIP" used
// to be compared with "gzip" byte for byte: the compressed bytes were split at whatever 0x0a they contained and handed
// to the pipeline as lines, and the request was answered with 200.

import (
	"bytes"
	"compress/gzip"
	"net/http"
	"net/http/httptest"
	"sync"
	"testing"
	"time"

	"github.com/ozontech/file.d/pipeline"
	"github.com/ozontech/file.d/test"
)

func TestVerifContentEncodingAnyCase(t *testing.T) {
	for _, enc := range []string{"gzip", "GZIP", "Gzip"} {
		pipelineMock, _, output := test.NewPipelineMock(nil, "passive")
		inputInfo := getInputInfo(&Config{Address: "off"})
		pipelineMock.SetInput(inputInfo)
		pipelineMock.Start()
		mu := sync.Mutex{}
		var got []string
		output.SetOutFn(func(event *pipeline.Event) {
			mu.Lock()
			got = append(got, event.Root.Dig("a").AsString())
			mu.Unlock()
		})
		buf := new(bytes.Buffer)
		gzw := gzip.NewWriter(buf)
		_, _ = gzw.Write([]byte(`{"a":"1"}` + "\n" + `{"a":"2"}` + "\n"))
		_ = gzw.Close()
		req := httptest.NewRequest(http.MethodPost, "/_bulk", buf)
		req.Header.Set("Content-Encoding", enc)
		rec := httptest.NewRecorder()
		inputInfo.Plugin.(*Plugin).ServeHTTP(rec, req)
		deadline := time.Now().Add(2 * time.Second)
		for time.Now().Before(deadline) {
			mu.Lock()
			n := len(got)
			mu.Unlock()
			if n >= 2 {
				break
			}
			time.Sleep(5 * time.Millisecond)
		}
		pipelineMock.Stop()
		mu.Lock()
		if rec.Code == http.StatusOK && (len(got) != 2 || got[0] != "1" || got[1] != "2") {
			t.Errorf("REPLAY-FAIL Content-Encoding: %s answered 200 but the events handed to the pipeline are %q, want the two lines of the decompressed body", enc, got)
		}
		if rec.Code != http.StatusOK {
			t.Errorf("REPLAY-FAIL Content-Encoding: %s answered %d", enc, rec.Code)
		}
		mu.Unlock()
	}
}
