package http

// Replay input of an OPEN finding of C11 (known_findings.json): in elasticsearch emulate mode a request whose path
// is not one of the known ones is logged and answered with the default status - 200 - although no line of its body
// was handed to the pipeline.  `/<index>/_bulk` is a regular Elasticsearch bulk endpoint.

import (
	"net/http"
	"net/http/httptest"
	"strings"
	"sync/atomic"
	"testing"
	"time"

	"github.com/ozontech/file.d/pipeline"
	"github.com/ozontech/file.d/test"
)

func TestVerifESEmulateUnknownPathIsNot200(t *testing.T) {
	pipelineMock, _, output := test.NewPipelineMock(nil, "passive")
	inputInfo := getInputInfo(&Config{Address: "off", EmulateMode: "elasticsearch"})
	pipelineMock.SetInput(inputInfo)
	pipelineMock.Start()
	var n atomic.Int32
	output.SetOutFn(func(event *pipeline.Event) { n.Add(1) })
	rec := httptest.NewRecorder()
	inputInfo.Plugin.(*Plugin).ServeHTTP(rec, httptest.NewRequest(http.MethodPost, "/my-index/_bulk", strings.NewReader(`{"index":{}}`+"\n"+`{"a":"1"}`+"\n")))
	time.Sleep(200 * time.Millisecond)
	pipelineMock.Stop()
	if rec.Code == http.StatusOK && n.Load() == 0 {
		t.Errorf("REPLAY-FAIL POST /my-index/_bulk answered 200 and %d of its 2 lines were handed to the pipeline", n.Load())
	}
}
