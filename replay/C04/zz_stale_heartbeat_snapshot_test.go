package pipeline

// Open finding C04 ("No interleaving leaves a stream with pending events unattended ...").
// streamer.heartbeat copies the blocked list and then visits the copy without the list lock.  stream.tryUnblock
// checks neither that the stream is still in the blocked list nor that it is still attached, and blockTime is
// still the old one.  If a put() wakes the owner between the snapshot and the visit, and the owner takes the
// event and leaves the (now empty) stream, tryUnblock (a) plants a time-out event into an unattached, uncharged
// stream: the next put() finds first != nil, appends and does not charge -> the stream is wedged; or (b), if
// the taken event is not acknowledged yet, panics "why events are different?" in the heartbeat goroutine.
// The heartbeat's snapshot / visit steps and the owner's steps (the body of blockGet) are driven by hand.

import (
	"fmt"
	"testing"
	"time"
)

// a stream whose owner has been parked in blockGet for longer than the event time-out, and the heartbeat's
// snapshot of the blocked list
func verifOpenStaleSnapshotSetup(t *testing.T) (*streamer, *stream, []*stream) {
	s := newStreamer(50 * time.Millisecond)
	st := s.getStream(StreamID(1), DefaultStreamName)
	e1 := newEvent()
	st.put(e1)
	if s.joinStream() != st {
		t.Fatal("setup: joinStream returned another stream")
	}
	st.instantGet()
	st.commit(e1)
	// the owner parks in blockGet (stream empty): first half of its loop body
	st.mu.Lock()
	st.blockTime = time.Now()
	s.makeBlocked(st)
	st.mu.Unlock()
	time.Sleep(80 * time.Millisecond)
	// heartbeat tick: snapshot of the blocked list
	s.blockedMu.Lock()
	snapshot := append([]*stream(nil), s.blocked...)
	s.blockedMu.Unlock()
	return s, st, snapshot
}

func TestVerifStaleHeartbeatSnapshot(t *testing.T) {
	// (a) the event is acknowledged before the heartbeat reaches the stale entry
	func() {
		s, st, snapshot := verifOpenStaleSnapshotSetup(t)
		e2 := newEvent()
		st.put(e2)
		// the owner wakes up: rest of blockGet; the action passes e2, the output commits it,
		// the stream is empty -> instantGet detaches it
		st.mu.Lock()
		s.resetBlocked(st)
		got := st.get()
		st.mu.Unlock()
		st.commit(got)
		if st.instantGet() != nil {
			t.Fatal("setup: stream expected to be empty")
		}
		// the heartbeat goes on with its sweep over the stale snapshot
		var planted bool
		func() {
			defer func() {
				if r := recover(); r != nil {
					t.Errorf("REPLAY-FAIL stale heartbeat snapshot, event acknowledged: tryUnblock panicked: %v", r)
				}
			}()
			planted = snapshot[0].tryUnblock()
		}()
		// the next event of the source arrives
		e3 := newEvent()
		st.put(e3)
		st.mu.Lock()
		attached, pending := st.isAttached, st.len
		firstKind := "nil"
		if st.first != nil {
			firstKind = fmt.Sprintf("timeout=%v", st.first.IsTimeoutKind())
		}
		st.mu.Unlock()
		s.chargedMu.Lock()
		charged := len(s.charged)
		s.chargedMu.Unlock()
		if !attached && charged == 0 {
			t.Errorf("REPLAY-FAIL event time-out 50ms; stream blocked 80ms; heartbeat snapshots the blocked list; put(e2), owner takes e2, e2 committed, owner leaves the empty stream; heartbeat visits the stale entry: tryUnblock returned %v (planted a time-out event into an unattached stream); then put(e3): stream has %d pending event(s) (first: %s) but attached=%v and charged streams=%d -> nobody will ever serve it",
				planted, pending, firstKind, attached, charged)
		}
	}()

	// (b) the event is still at the output when the heartbeat reaches the stale entry
	func() {
		s, st, snapshot := verifOpenStaleSnapshotSetup(t)
		e2 := newEvent()
		st.put(e2)
		st.mu.Lock()
		s.resetBlocked(st)
		st.get()
		st.mu.Unlock()
		if st.instantGet() != nil { // empty -> detaching, waits for the commit of e2
			t.Fatal("setup: stream expected to be empty")
		}
		defer func() {
			if r := recover(); r != nil {
				t.Errorf("REPLAY-FAIL event time-out 50ms; stream blocked 80ms; heartbeat snapshots the blocked list; put(e2), owner takes e2 (not acknowledged yet) and leaves the empty stream (detaching); heartbeat visits the stale entry: tryUnblock panicked in the heartbeat goroutine: %v", r)
			}
		}()
		snapshot[0].tryUnblock()
	}()
}
