package pipeline

// Replay canary for C04 (low-memory event pool heartbeat).
//
// State replayed: a reader is parked in get() on a full pool (capacity 1) and the
// pool then has free capacity without a pending Broadcast - the state left behind
// when back()'s Broadcast lands between the reader's eventsAvailable() check and
// its Wait().  The heartbeat exists to repair exactly this; on the pinned tree its
// condition was inverted (woke waiters only while NO event was available), so the
// reader stayed parked although capacity was free.

import (
	"testing"
	"time"
)

func TestVerifReplayC04(t *testing.T) {
	p := newLowMemoryEventPool(1)
	p.wakeupInterval = 10 * time.Millisecond
	defer p.stop()

	first := p.get(10) // pool is now full
	_ = first

	got := make(chan *Event, 1)
	go func() { got <- p.get(10) }() // parks: over capacity

	// wait until the reader is really parked
	deadline := time.Now().Add(2 * time.Second)
	for p.waiters() == 0 && time.Now().Before(deadline) {
		time.Sleep(time.Millisecond)
	}
	time.Sleep(20 * time.Millisecond)

	// the lost wake-up: capacity becomes free, the Broadcast is not seen by the parked reader
	p.inUseEvents.Dec()

	select {
	case <-got:
	case <-time.After(50 * p.wakeupInterval):
		t.Errorf("REPLAY-FAIL reader still parked after 50 heartbeat intervals although in-use=%d < capacity=%d", p.inUseEvents.Load(), p.capacity)
	}
}
