package decode

// Replay canary (C13): decode (json, with a key prefix) followed by an action that appends to event.Buf.
// decodeJson wrote the prefixed key names behind the end of a LOCAL copy of event.Buf and pointed the field
// names at those bytes (unsafe), without advancing event.Buf: the next action that appends to event.Buf
// (json_encode, flatten, parse_re2, k8s multiline, ...) overwrote the key names.

import (
	"strings"
	"sync"
	"testing"

	"github.com/ozontech/file.d/pipeline"
	"github.com/ozontech/file.d/plugin/action/json_encode"
	"github.com/ozontech/file.d/test"
	insaneJSON "github.com/ozontech/insane-json"
)

func TestVerifDecodePrefixSurvivesLaterActions(t *testing.T) {
	dec := test.NewActionPluginStaticInfo(factory, test.NewConfig(&Config{Field: "log", Prefix: "p_"}, nil), pipeline.MatchModeAnd, nil, false)
	encFactory := func() (pipeline.AnyPlugin, pipeline.AnyConfig) { return &json_encode.Plugin{}, &json_encode.Config{} }
	enc := test.NewActionPluginStaticInfo(encFactory, test.NewConfig(&json_encode.Config{Field: "obj"}, nil), pipeline.MatchModeAnd, nil, false)
	p, input, output := test.NewPipelineMock(append(dec, enc...))
	wg := &sync.WaitGroup{}
	got := ""
	output.SetOutFn(func(e *pipeline.Event) {
		got = e.Root.EncodeToString()
		wg.Done()
	})
	defer p.Stop()
	// pooled events keep the capacity of Buf: from the second use on, both actions write into the same array
	for i := 0; i < 8; i++ {
		wg.Add(1)
		input.In(0, "test.log", test.NewOffset(int64(i)), []byte(`{"log":"{\"alpha\":1,\"beta\":2}","obj":{"x":"y"}}`))
		wg.Wait()
		root := insaneJSON.Spawn()
		err := root.DecodeString(got)
		insaneJSON.Release(root)
		if err != nil {
			t.Fatalf("REPLAY-FAIL event %d no longer re-parses: %v\n%s", i, err, got)
		}
		if !strings.Contains(got, `"p_alpha":1`) || !strings.Contains(got, `"p_beta":2`) {
			t.Fatalf("REPLAY-FAIL event %d: prefixed keys were overwritten by the next action: %s", i, got)
		}
	}
}
