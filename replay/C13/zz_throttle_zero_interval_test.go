package throttle

// Open finding C13 ("for every action plugin under every configuration its own validation accepts,
// processing any decodable event ... never panics").  Neither cfg.Parse nor throttle's Start checks
// bucket_interval and buckets_count.  With bucket_interval "0s" the first event panics in
// bucketsMeta.timeToBucketID (t.UnixNano() / interval.Nanoseconds(): integer divide by zero); with
// buckets_count -1 the first event panics in newSimpleBuckets (make([]int64, -1): makeslice: len out of
// range).  Both happen in Do on the processor goroutine, which has no recover.

import (
	"fmt"
	"testing"

	"github.com/ozontech/file.d/cfg"
	"github.com/ozontech/file.d/pipeline"
	"github.com/ozontech/file.d/test"
	insaneJSON "github.com/ozontech/insane-json"
	"go.uber.org/zap"
	"go.uber.org/zap/zapcore"
)

func TestVerifThrottleZeroIntervalNegativeCount(t *testing.T) {
	const input = `{"k8s_pod":"pod_1","level":"info"}`
	cases := []struct {
		name    string
		descr   string
		mutate  func(c *Config)
		pipeNam string
	}{
		{
			name:    "bucket_interval_0s",
			descr:   `{throttle_field: k8s_pod, default_limit: 10, buckets_count: 60, bucket_interval: "0s"}`,
			mutate:  func(c *Config) { c.BucketInterval = "0s" },
			pipeNam: "verif_open_throttle_zero_interval",
		},
		{
			name:    "buckets_count_-1",
			descr:   `{throttle_field: k8s_pod, default_limit: 10, buckets_count: -1, bucket_interval: "1m"}`,
			mutate:  func(c *Config) { c.BucketsCount = -1 },
			pipeNam: "verif_open_throttle_negative_count",
		},
	}

	for _, tc := range cases {
		t.Run(tc.name, func(t *testing.T) {
			config := &Config{
				ThrottleField:  "k8s_pod",
				DefaultLimit:   10,
				BucketsCount:   60,
				BucketInterval: "1m",
			}
			tc.mutate(config)
			// the same two steps fd applies to a plugin's configuration: defaults, then parse / validation
			if err := cfg.SetDefaultValues(config); err != nil {
				t.Logf("the configuration is rejected by SetDefaultValues (%v): nothing to check", err)
				return
			}
			if err := cfg.Parse(config, nil); err != nil {
				t.Logf("the configuration is rejected by cfg.Parse (%v): nothing to check", err)
				return
			}

			params := test.NewEmptyActionPluginParams()
			params.PipelineName = tc.pipeNam // the limiters map is global per pipeline name
			// a repair that rejects the configuration in Start (Fatal) must not kill the test binary
			params.Logger = params.Logger.Desugar().WithOptions(zap.WithFatalHook(zapcore.WriteThenPanic)).Sugar()

			p := &Plugin{}
			rejected := func() (r any) {
				defer func() { r = recover() }()
				p.Start(config, params)
				return nil
			}()
			if rejected != nil {
				t.Logf("the configuration is rejected by Start (%v): nothing to check", rejected)
				return
			}
			defer p.Stop()

			root, err := insaneJSON.DecodeString(input)
			if err != nil {
				t.Fatal(err)
			}
			defer insaneJSON.Release(root)
			event := &pipeline.Event{Root: root, Buf: make([]byte, 0, 128), Size: len(input)}

			var res pipeline.ActionResult
			panicked := func() (r any) {
				defer func() { r = recover() }()
				res = p.Do(event)
				return nil
			}()
			if panicked != nil {
				t.Fatalf("REPLAY-FAIL throttle %s passes cfg.Parse and Start (bucket_interval parsed to %v, buckets_count %d), but Do on the first event %s panics: %s; want ActionPass or ActionDiscard (or the configuration rejected at start)",
					tc.descr, config.BucketInterval_, config.BucketsCount, input, fmt.Sprint(panicked))
			}
			if res != pipeline.ActionPass && res != pipeline.ActionDiscard {
				t.Errorf("REPLAY-FAIL throttle %s on %s returned %v, want ActionPass or ActionDiscard", tc.descr, input, res)
			}
		})
	}
}
