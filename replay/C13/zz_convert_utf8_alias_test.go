package convert_utf8_bytes

// Replay canary (C13): two configured fields.  convert() built every new value in the plugin's single scratch
// buffer p.buf and pointed the node at it without copying (ByteToStringUnsafe); converting the second field
// overwrote the value of the first, and the next event overwrote both while the previous event was still on
// its way to the output.

import (
	"sync"
	"testing"

	"github.com/ozontech/file.d/cfg"
	"github.com/ozontech/file.d/pipeline"
	"github.com/ozontech/file.d/test"
)

func TestVerifConvertedFieldsKeepTheirValues(t *testing.T) {
	config := test.NewConfig(&Config{Fields: []cfg.FieldSelector{"a", "b"}}, nil)
	p, input, output := test.NewPipelineMock(test.NewActionPluginStaticInfo(factory, config, pipeline.MatchModeAnd, nil, false))
	wg := &sync.WaitGroup{}
	wg.Add(1)
	var a, b string
	output.SetOutFn(func(e *pipeline.Event) {
		a, b = e.Root.Dig("a").AsString(), e.Root.Dig("b").AsString()
		wg.Done()
	})
	input.In(0, "test.log", test.NewOffset(0), []byte(`{"a":"first \\110\\145\\154\\154\\157","b":"second \\146\\151\\154\\145"}`))
	wg.Wait()
	p.Stop()
	if a != "first Hello" || b != "second file" {
		t.Fatalf("REPLAY-FAIL a=%q b=%q, want a=%q b=%q", a, b, "first Hello", "second file")
	}
}
