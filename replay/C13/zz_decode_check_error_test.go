package decode

// Open finding recorded under C13 (decode action; adjacent to "under every configuration its own
// validation accepts, processing any decodable event terminates with one of the defined action
// results" - here the result is Pass but the action silently does nothing; no crash, JSON stays
// well-formed, so this is a functional defect rather than a C13 crash).
// Plugin.checkError returns true unconditionally whenever log_decode_error_mode is not "off", also
// for err == nil: with "erronly" or "withnode" every decoder path takes the error branch, a
// successfully decoded field is never applied to the event, and an error with a nil error is logged.

import (
	"testing"

	"github.com/ozontech/file.d/pipeline"
	"github.com/ozontech/file.d/test"
	insaneJSON "github.com/ozontech/insane-json"
)

func TestVerifDecodeCheckErrorWithLogging(t *testing.T) {
	const input = `{"level":"error","log":"{\"a\":1}"}`
	want := ""
	for _, mode := range []string{"off", "erronly", "withnode"} {
		config := test.NewConfig(&Config{
			Field:              "log",
			Decoder:            "json",
			LogDecodeErrorMode: mode,
		}, nil)
		p := &Plugin{}
		p.Start(config, test.NewEmptyActionPluginParams())

		root, err := insaneJSON.DecodeString(input)
		if err != nil {
			t.Fatal(err)
		}
		event := &pipeline.Event{Root: root, Buf: make([]byte, 0, 128)}
		res := p.Do(event)
		got := event.Root.EncodeToString()
		a := event.Root.Dig("a").AsString()
		insaneJSON.Release(root)
		p.Stop()

		if mode == "off" {
			want = got // reference: what the action does to this event when only logging is off
			if a != "1" {
				t.Fatalf("setup: with log_decode_error_mode off the field was not decoded: %s", got)
			}
			continue
		}
		if got != want || res != pipeline.ActionPass {
			t.Errorf("REPLAY-FAIL decode {field: log, decoder: json, log_decode_error_mode: %s} on event %s: result %v, event afterwards %s, want %s (as with log_decode_error_mode off); the option only selects how decode errors are logged, but checkError returns true for a nil error and the decoded field is dropped",
				mode, input, res, got, want)
		}
	}
}
