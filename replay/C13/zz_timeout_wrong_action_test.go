package pipeline

// Replay canary (C13 / C04): chain [filter that drops some events, join-like hold action].  While the join holds
// a start line, the next event of the stream is dropped by the FIRST action; then the stream goes quiet and the
// time-out event arrives.  The processor hands the time-out to "lastAction" - the index of the action that last
// returned non-pass, i.e. the filter, which is not waiting for anything - with event.Root == nil.  Every real
// action dereferences event.Root (here: Root.Dig), so the processor goroutine panics.

import (
	"sync"
	"testing"
	"time"

	insaneJSON "github.com/ozontech/insane-json"
	"go.uber.org/atomic"
)

type verifDropAction struct{}

func (a *verifDropAction) Start(_ AnyConfig, _ *ActionPluginParams) {}
func (a *verifDropAction) Stop()                                  {}
func (a *verifDropAction) Do(event *Event) ActionResult {
	if event.Root.Dig("drop") != nil { // like plugin/action/discard with a field condition, throttle, ...
		return ActionDiscard
	}
	return ActionPass
}

type verifHoldAction struct {
	ctl      ActionPluginController
	held     *Event
	timeouts int
}

func (a *verifHoldAction) Start(_ AnyConfig, params *ActionPluginParams) { a.ctl = params.Controller }
func (a *verifHoldAction) Stop()                                        {}
func (a *verifHoldAction) Do(event *Event) ActionResult {
	if event.IsTimeoutKind() {
		a.timeouts++
		if a.held != nil {
			h := a.held
			a.held = nil
			a.ctl.Propagate(h)
		}
		return ActionDiscard
	}
	if event.Root.Dig("first") != nil {
		a.held = event
		return ActionHold
	}
	return ActionPass
}

type verifOut struct {
	finalize finalizeFn
	n        int
}

func (o *verifOut) Start(_ AnyConfig, _ *OutputPluginParams) {}
func (o *verifOut) Stop()                                    {}
func (o *verifOut) Out(event *Event)                         { o.n++; o.finalize(event, true, true) }

func TestVerifTimeoutGoesToTheWaitingAction(t *testing.T) {
	sr := newStreamer(50 * time.Millisecond)
	finalize := func(event *Event, _ bool, _ bool) {
		if event.IsTimeoutKind() || event.IsChildKind() {
			return
		}
		event.stream.commit(event)
	}
	out := &verifOut{finalize: finalize}
	router := NewRouter()
	router.SetOutput(&OutputPluginInfo{
		PluginStaticInfo:  &PluginStaticInfo{Type: "verif_out"},
		PluginRuntimeInfo: &PluginRuntimeInfo{Plugin: out, ID: "out"},
	})
	proc := newProcessor(0, &actionMetrics{m: map[string]*actionMetric{}, mu: &sync.RWMutex{}}, atomic.NewInt32(0), router, sr, finalize, func(...string) {}, func() {})
	hold := &verifHoldAction{}
	for _, plugin := range []ActionPlugin{&verifDropAction{}, hold} {
		proc.AddActionPlugin(&ActionPluginInfo{
			ActionPluginStaticInfo: &ActionPluginStaticInfo{PluginStaticInfo: &PluginStaticInfo{Type: "verif_action"}},
			PluginRuntimeInfo:      &PluginRuntimeInfo{Plugin: plugin, ID: "a"},
		})
		plugin.Start(nil, &ActionPluginParams{Controller: proc})
	}
	mk := func(js string, off int64) *Event {
		e := newEvent()
		if err := e.Root.DecodeString(js); err != nil {
			t.Fatal(err)
		}
		e.Offset = off
		return e
	}
	a, b := mk(`{"first":true,"m":"start"}`, 10), mk(`{"drop":true,"m":"noise"}`, 20)
	defer insaneJSON.Release(a.Root)
	defer insaneJSON.Release(b.Root)
	st := sr.getStream(1, "stdout")
	st.put(a)
	st.put(b)
	if sr.joinStream() != st {
		t.Fatal("wrong stream joined")
	}
	sr.start() // the heartbeat that unblocks quiet streams with a time-out event
	defer sr.stop()

	done := make(chan interface{}, 1)
	go func() {
		defer func() { done <- recover() }()
		proc.dischargeStream(st)
	}()
	select {
	case r := <-done:
		if r != nil {
			t.Fatalf("REPLAY-FAIL the processor panicked on the time-out event: %v", r)
		}
	case <-time.After(5 * time.Second):
		t.Fatalf("REPLAY-FAIL the held event was never flushed (time-outs seen by the waiting action: %d)", hold.timeouts)
	}
	if hold.timeouts != 1 || out.n != 1 {
		t.Fatalf("REPLAY-FAIL time-outs delivered to the waiting action: %d (want 1), events delivered: %d (want 1)", hold.timeouts, out.n)
	}
}
