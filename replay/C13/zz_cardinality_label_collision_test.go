package cardinality

// Open finding C13 ("for every action plugin under every configuration its own validation accepts,
// processing any decodable event ... never panics").  parseFields names a key field by joining its path
// with "_", so the key fields "a.b" and "a_b" get the same name; keyMetricLabels de-duplicates the label
// names when the gauge vector is registered (1 label), while Do passes one value per key field
// (2 values) to WithLabelValues.  Start accepts the configuration; the first event carrying a new value
// panics on the processor goroutine with "inconsistent label cardinality".

import (
	"fmt"
	"testing"
	"time"

	"github.com/ozontech/file.d/cfg"
	"github.com/ozontech/file.d/pipeline"
	"github.com/ozontech/file.d/test"
	insaneJSON "github.com/ozontech/insane-json"
	"go.uber.org/zap"
	"go.uber.org/zap/zapcore"
)

func TestVerifCardinalityLabelCollision(t *testing.T) {
	const input = `{"a":{"b":"x"},"a_b":"y","client_id":"1"}`
	config := test.NewConfig(&Config{
		KeyFields: []cfg.FieldSelector{"a.b", "a_b"},
		Fields:    []cfg.FieldSelector{"client_id"},
		Limit:     10,
		Action:    actionNothing,
		TTL_:      time.Hour,
	}, nil).(*Config)

	params := test.NewEmptyActionPluginParams()
	// a repair that rejects the configuration in Start (Fatal) must not kill the test binary
	params.Logger = params.Logger.Desugar().WithOptions(zap.WithFatalHook(zapcore.WriteThenPanic)).Sugar()

	p := &Plugin{}
	rejected := func() (r any) {
		defer func() { r = recover() }()
		p.Start(config, params)
		return nil
	}()
	if rejected != nil {
		t.Logf("the configuration is rejected by Start (%v): nothing to check", rejected)
		return
	}
	defer p.Stop()

	root, err := insaneJSON.DecodeString(input)
	if err != nil {
		t.Fatal(err)
	}
	defer insaneJSON.Release(root)
	event := &pipeline.Event{Root: root, Buf: make([]byte, 0, 128)}

	var res pipeline.ActionResult
	panicked := func() (r any) {
		defer func() { r = recover() }()
		res = p.Do(event)
		return nil
	}()
	if panicked != nil {
		t.Fatalf("REPLAY-FAIL cardinality {key: [a.b, a_b], fields: [client_id], limit: 10, action: nothing} is accepted by Start, but Do on the first event %s panics: %s; want one of the defined action results (both key fields are named \"a_b\": the gauge is registered with 1 label, Do passes 2 values)",
			input, fmt.Sprint(panicked))
	}
	if res != pipeline.ActionPass {
		t.Errorf("REPLAY-FAIL cardinality action 'nothing' on %s returned %v, want ActionPass", input, res)
	}
	if _, err := insaneJSON.DecodeString(event.Root.EncodeToString()); err != nil {
		t.Errorf("REPLAY-FAIL the event does not re-parse after Do: %v", err)
	}
}
