package decode

// Open finding recorded under C13 (decode action; adjacent to "leaves the event a well-formed JSON
// document ... never poison what it sends on": the event stays well-formed, but the content of a field
// the action was told to keep is corrupted - a functional defect rather than a crash).
// With decoder json, params.json_max_fields_size and keep_origin: true, decodeJson hands node.AsBytes()
// - the bytes of the source field itself - to jsonDecoder.Decode, whose cutFieldsBySize shortens a too
// long string by append(data[:start], data[end+1:]...) IN PLACE.  The source node keeps its old length,
// so the kept origin field shows the shifted bytes followed by the stale tail of the old content.

import (
	"testing"

	"github.com/ozontech/file.d/pipeline"
	"github.com/ozontech/file.d/test"
	insaneJSON "github.com/ozontech/insane-json"
)

func TestVerifDecodeKeepOriginMangled(t *testing.T) {
	const origin = `{"a":"xxxxxxxxxx","b":1}`
	const input = `{"level":"error","log":"{\"a\":\"xxxxxxxxxx\",\"b\":1}"}`
	config := test.NewConfig(&Config{
		Field:      "log",
		Decoder:    "json",
		KeepOrigin: true,
		Params: map[string]any{
			"json_max_fields_size": map[string]any{"a": 3},
		},
	}, nil)
	p := &Plugin{}
	p.Start(config, test.NewEmptyActionPluginParams())
	defer p.Stop()

	root, err := insaneJSON.DecodeString(input)
	if err != nil {
		t.Fatal(err)
	}
	defer insaneJSON.Release(root)
	if got := root.Dig("log").AsString(); got != origin {
		t.Fatalf("setup: log = %q", got)
	}
	event := &pipeline.Event{Root: root, Buf: make([]byte, 0, 128)}
	res := p.Do(event)
	out := event.Root.EncodeToString()

	if res != pipeline.ActionPass {
		t.Fatalf("decode returned %v, want ActionPass", res)
	}
	if got := event.Root.Dig("a").AsString(); got != "xxx" {
		t.Fatalf("setup: the decoded field a = %q, want it cut to \"xxx\" (event %s)", got, out)
	}
	if got := event.Root.Dig("log").AsString(); got != origin {
		t.Errorf("REPLAY-FAIL decode {field: log, decoder: json, keep_origin: true, params: {json_max_fields_size: {a: 3}}} on event %s: the kept origin field log = %q, want it unchanged = %q (event afterwards %s); cutFieldsBySize cut the source field's own bytes in place",
			input, got, origin, out)
	}
	if _, err := insaneJSON.DecodeString(out); err != nil {
		t.Errorf("REPLAY-FAIL the event does not re-parse after Do: %v (%s)", err, out)
	}
}
