package k8s

// Replay canary (C13): k8s multiline with max_event_size and cut_off_event_by_limit.  The joined value is kept in
// escaped form; the cut for the size limit is taken at a byte offset of that escaped text.  When the offset falls
// between a backslash and the character it escapes, the buffer ends with a lone backslash, the closing quote
// appended afterwards is escaped by it, and the event's "log" value is no longer a JSON string.

import (
	"encoding/json"
	"strings"
	"testing"

	"github.com/ozontech/file.d/logger"
	"github.com/ozontech/file.d/pipeline"
	"github.com/ozontech/file.d/plugin/input/k8s/meta"
	"github.com/ozontech/file.d/test"
	insaneJSON "github.com/ozontech/insane-json"
)

func TestVerifK8sCutOffKeepsEscapesWhole(t *testing.T) {
	meta.EnableGatherer(logger.Instance)
	defer meta.DisableGatherer()
	item := &meta.MetaItem{Namespace: "sre", PodName: "pod-2222222222-trtrq", ContainerName: "c", ContainerID: "5e0301b633eaa2bfdcafdeba59ba0c72a3815911a6a820bf273534b0f32d98e0"}
	meta.PutMeta(getPodInfo(item, true))
	for limit := 12; limit <= 20; limit++ {
		plugin := &MultilineAction{}
		config := &Config{SplitEventSize: predictionLookahead * 4}
		params := test.NewEmptyActionPluginParams()
		params.PipelineSettings = &pipeline.Settings{MaxEventSize: limit, CutOffEventByLimit: true}
		plugin.Start(config, params)
		var last *pipeline.Event
		// two partial chunks full of escaped characters, then the closing chunk
		for _, part := range []string{`{"log":"a\u0001b\u0001c"}`, `{"log":"f\u0001g\u0001h"}`, `{"log":"end\n"}`} {
			root := insaneJSON.Spawn()
			defer insaneJSON.Release(root)
			if err := root.DecodeString(part); err != nil {
				t.Fatal(err)
			}
			event := &pipeline.Event{Root: root, SourceName: getLogFilename("k8s", item), Size: len(part)}
			pipeline.CreateNestedField(event.Root, []string{"k8s_pod"}).MutateToString(string(item.PodName))
			pipeline.CreateNestedField(event.Root, []string{"k8s_namespace"}).MutateToString(string(item.Namespace))
			pipeline.CreateNestedField(event.Root, []string{"k8s_container"}).MutateToString(string(item.ContainerName))
			pipeline.CreateNestedField(event.Root, []string{"k8s_container_id"}).MutateToString(string(item.ContainerID))
			if plugin.Do(event) == pipeline.ActionPass {
				last = event
			}
		}
		if last == nil {
			continue
		}
		out := last.Root.EncodeToString()
		// a strict parser (encoding/json, Elasticsearch, ...) must accept what is sent on
		if !json.Valid([]byte(out)) {
			t.Errorf("REPLAY-FAIL max_event_size=%d: the passed event is not valid JSON: %s", limit, out[:strings.Index(out, `,"k8s_pod"`)])
		}
	}
}
