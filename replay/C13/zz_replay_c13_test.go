package k8s

// Replay canary for C13 (k8s multiline action): an event whose "log" field is an
// empty string (escaped form `""`, two bytes) or not a string at all (e.g. the
// number 1, one byte) made Do() slice the escaped fragment out of range and panic
// on the processor goroutine.

import (
	"testing"

	"github.com/ozontech/file.d/pipeline"
	"github.com/ozontech/file.d/plugin/input/k8s/meta"
	"github.com/ozontech/file.d/test"
	insaneJSON "github.com/ozontech/insane-json"
)

func TestVerifReplayC13(t *testing.T) {
	plugin := &MultilineAction{}
	config := &Config{SplitEventSize: predictionLookahead * 4}
	params := test.NewEmptyActionPluginParams()
	params.PipelineSettings = &pipeline.Settings{MaxEventSize: 0}
	plugin.Start(config, params)
	item := &meta.MetaItem{Namespace: "sre", PodName: "pod-1111111111-trtrq", ContainerName: "c", ContainerID: "4e0301b633eaa2bfdcafdeba59ba0c72a3815911a6a820bf273534b0f32d98e0"}
	meta.PutMeta(getPodInfo(item, true))

	for _, part := range []string{`{"log":""}`, `{"log":1}`} {
		func() {
			defer func() {
				if r := recover(); r != nil {
					t.Errorf("REPLAY-FAIL k8s multiline Do(%s): panic: %v", part, r)
				}
			}()
			root := insaneJSON.Spawn()
			defer insaneJSON.Release(root)
			if err := root.DecodeString(part); err != nil {
				t.Fatal(err)
			}
			event := &pipeline.Event{Root: root, SourceName: getLogFilename("k8s", item), Size: len(part)}
			pipeline.CreateNestedField(event.Root, []string{"k8s_pod"}).MutateToString(string(item.PodName))
			pipeline.CreateNestedField(event.Root, []string{"k8s_namespace"}).MutateToString(string(item.Namespace))
			pipeline.CreateNestedField(event.Root, []string{"k8s_container"}).MutateToString(string(item.ContainerName))
			pipeline.CreateNestedField(event.Root, []string{"k8s_container_id"}).MutateToString(string(item.ContainerID))
			plugin.Do(event)
		}()
	}
}
