package substitution

// Replay canary (C13): a substitution the parser accepts -- trim_to with an empty cutset -- applied to a
// field value whose buffer is exactly full.  bytes.LastIndex(src, "") is len(src), so src[:idx+1] reslices
// one byte past the value: it panics when cap == len and otherwise appends a stale byte of the buffer.

import (
	"testing"

	"go.uber.org/zap"
)

func TestVerifTrimToEmptyCutset(t *testing.T) {
	ops, err := ParseSubstitution(`${field|trim_to("right","")}`, nil, zap.NewNop())
	if err != nil {
		t.Skipf("configuration rejected by validation (nothing to replay): %v", err)
	}
	for _, op := range ops {
		for _, f := range op.Filters {
			func() {
				defer func() {
					if r := recover(); r != nil {
						t.Errorf("REPLAY-FAIL panic on a full buffer: %v", r)
					}
				}()
				src := make([]byte, 3, 3)
				copy(src, "abc")
				_ = f.Apply(src, src)
			}()
			buf := make([]byte, 3, 8)
			copy(buf, "abc")
			buf[:4][3] = 'X' // stale byte behind the value
			if got := f.Apply(buf, buf); string(got) != "abc" {
				t.Errorf("REPLAY-FAIL value %q became %q (a byte from behind the value was added)", "abc", got)
			}
		}
	}
}
