package metric

// Replay canary (C13): metric label values are taken from event fields (mask's applied_metric_labels, throttle's
// limit distribution metrics, ...).  prometheus panics on a label value that is not valid UTF-8.  A field value
// that is not valid UTF-8 (JSON strings are not validated), or a valid non-ASCII value cut in the middle of a rune
// by metric_max_label_value_length, therefore took the processor goroutine - and the process - down.

import (
	"testing"
	"time"

	"github.com/prometheus/client_golang/prometheus"
)

func TestVerifLabelValuesFromEventContent(t *testing.T) {
	for _, c := range []struct {
		name   string
		maxLen int
		value  string
	}{
		{"invalid utf-8 in the field", 0, "svc-\xff\xfe"},
		{"valid text cut inside a rune by the length limit", 5, "Привет"},
		{"plain", 0, "ok"},
	} {
		func() {
			defer func() {
				if r := recover(); r != nil {
					t.Errorf("REPLAY-FAIL %s: label value %q: panic: %v", c.name, c.value, r)
				}
			}()
			ctl := NewCtl("verif", prometheus.NewRegistry(), time.Minute, c.maxLen)
			cv := ctl.RegisterCounterVec("events_total", "help", "service")
			cv.WithLabelValues(c.value).Inc()
			cv.WithLabelValues(c.value).Inc()
			cv.DeleteLabelValues(c.value)
		}()
	}
}
