package throttle

// Open finding C16 ("does not exceed the limit selected by the first matching rule", "events are never
// rejected while their key's bucket is under its limit", "keys never share a budget").
// Plugin.Start takes the package-global limiters[pipelineName] and creates it only for the first throttle
// action of a pipeline.  A second throttle action of the same pipeline (other throttle_field, other limit)
// gets the very same limitersMap and the same key space 'a'+ruleIdx+":"+value, so a limiter, its limit and
// its counters belong to whichever action created it first.

import (
	"fmt"
	"testing"
	"time"

	"github.com/ozontech/file.d/cfg"
	"github.com/ozontech/file.d/pipeline"
	"github.com/ozontech/file.d/test"
	insaneJSON "github.com/ozontech/insane-json"
)

func TestVerifOpenTwoActionsShareLimiters(t *testing.T) {
	const pipelineName = "verif_open_two_actions"
	start := func(field string, limit int64) *Plugin {
		config := &Config{
			BucketsCount:   60,
			BucketInterval: "1m",
			ThrottleField:  cfg.FieldSelector(field),
			TimeField:      "time",
			DefaultLimit:   limit,
		}
		test.NewConfig(config, nil)
		params := test.NewEmptyActionPluginParams()
		params.PipelineName = pipelineName
		p := &Plugin{}
		p.Start(config, params)
		return p
	}
	a := start("x", 1) // action A: throttle by x, 1 event per minute
	b := start("y", 5) // action B: throttle by y, 5 events per minute
	defer func() {
		a.Stop()
		b.Stop()
		throttleMapsCleanup()
	}()

	now := time.Date(2024, 5, 6, 7, 8, 30, 0, time.UTC)
	a.limitersMap.setNowFn(func() time.Time { return now }, true)
	b.limitersMap.setNowFn(func() time.Time { return now }, true)
	ts := now.Format(time.RFC3339Nano)

	mk := func(s string) *pipeline.Event {
		root, err := insaneJSON.DecodeString(s)
		if err != nil {
			t.Fatal(err)
		}
		return &pipeline.Event{Root: root, Size: len(s)}
	}

	// 1. A sees x="k" first (creates limiter "a:k" with limit 1) and passes the event on to B.
	ev := fmt.Sprintf(`{"time":%q,"x":"k","y":"k"}`, ts)
	if !a.isAllowed(mk(ev)) {
		t.Fatalf("setup: action A (limit 1) rejected the first event %s", ev)
	}
	// B has let nothing through yet for y="k"; its limit is 5, so the event must pass.
	if !b.isAllowed(mk(ev)) {
		t.Errorf("REPLAY-FAIL pipeline with throttle A(throttle_field x, limit 1) and B(throttle_field y, limit 5), event %s: A passed it, then B rejected it although 0 events with y=\"k\" had passed B (limit 5); both actions use one limitersMap (same pointer: %v) and one limiter \"a:k\" created by A",
			ev, a.limitersMap == b.limitersMap)
	}

	// 2. B creates the limiter for "q" first (limit 5); then A (limit 1) must pass only one x="q" event.
	evB := fmt.Sprintf(`{"time":%q,"y":"q"}`, ts)
	if !b.isAllowed(mk(evB)) {
		t.Fatalf("setup: action B (limit 5) rejected the first event %s", evB)
	}
	evA := fmt.Sprintf(`{"time":%q,"x":"q"}`, ts)
	passed := 0
	for i := 0; i < 6; i++ {
		if a.isAllowed(mk(evA)) {
			passed++
		}
	}
	if passed != 1 {
		t.Errorf("REPLAY-FAIL pipeline with throttle A(throttle_field x, limit 1) and B(throttle_field y, limit 5): after B saw one event %s, A passed %d of 6 events %s in one bucket; A's limit is 1, so exactly 1 must pass",
			evB, passed, evA)
	}
}
