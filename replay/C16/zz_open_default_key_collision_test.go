package throttle

// Open finding C16 ("keys never share a budget").
// Plugin.isAllowed substitutes the constant defaultThrottleKey ("default") for a missing or empty
// throttle field, and uses the field value verbatim otherwise.  An event whose throttle field is the
// literal string "default" therefore maps to the same limiter key "a:default" as events that have
// no throttle field at all: two distinct keys share one budget.

import (
	"fmt"
	"testing"
	"time"

	"github.com/ozontech/file.d/pipeline"
	"github.com/ozontech/file.d/test"
	insaneJSON "github.com/ozontech/insane-json"
)

func TestVerifOpenDefaultKeyCollision(t *testing.T) {
	config := &Config{
		BucketsCount:   60,
		BucketInterval: "1m",
		ThrottleField:  "k8s_pod",
		TimeField:      "time",
		DefaultLimit:   2,
	}
	test.NewConfig(config, nil)

	params := test.NewEmptyActionPluginParams()
	params.PipelineName = "verif_open_default_key_collision"
	p := &Plugin{}
	p.Start(config, params)
	defer func() {
		p.Stop()
		throttleMapsCleanup()
	}()

	now := time.Date(2024, 5, 6, 7, 8, 30, 0, time.UTC)
	p.limitersMap.setNowFn(func() time.Time { return now }, true)
	ts := now.Format(time.RFC3339Nano)

	mk := func(s string) *pipeline.Event {
		root, err := insaneJSON.DecodeString(s)
		if err != nil {
			t.Fatal(err)
		}
		return &pipeline.Event{Root: root, Size: len(s)}
	}
	withKey := fmt.Sprintf(`{"time":%q,"k8s_pod":"default"}`, ts)
	noKey := fmt.Sprintf(`{"time":%q}`, ts)

	// key "default" (a real pod name): 2 events, exactly the limit.
	for i := 0; i < 2; i++ {
		if !p.isAllowed(mk(withKey)) {
			t.Fatalf("setup: event %d with k8s_pod \"default\" was rejected under limit 2", i+1)
		}
	}
	// a different key (no throttle field): its bucket is empty, the event must pass.
	if !p.isAllowed(mk(noKey)) {
		p.limitersMap.mu.RLock()
		n := len(p.limitersMap.lims)
		p.limitersMap.mu.RUnlock()
		t.Errorf("REPLAY-FAIL limit 2, throttle_field k8s_pod: after 2 events %s passed, the first event %s (no k8s_pod, 0 events of that key passed) was rejected; both map to one limiter \"a:default\" (%d limiter(s) in the map), so the key \"default\" and the absent key share a budget",
			withKey, noKey, n)
	}
}
