package throttle

// Open finding C16 ("the limit selected by the first matching rule ... keys never share a budget").
// newRule builds the limiter-key prefix as byte('a'+ruleNum), which wraps modulo 256: with 256
// configured rules the implicit default rule has number 256 and gets the prefix "a:" of rule 0.
// For the same throttle key both rules then resolve to the same limiter in limitersMap.getOrAdd,
// so an event selected by the default rule (limit 100) is charged to, and rejected by, rule 0's
// limit-1 budget.

import (
	"fmt"
	"testing"
	"time"

	"github.com/ozontech/file.d/pipeline"
	"github.com/ozontech/file.d/test"
	insaneJSON "github.com/ozontech/insane-json"
)

func TestVerifOpenRulePrefixWrap(t *testing.T) {
	const nRules = 256
	rules := make([]RuleConfig, 0, nRules)
	for i := 0; i < nRules; i++ {
		limit := int64(50)
		if i == 0 {
			limit = 1
		}
		rules = append(rules, RuleConfig{
			Limit:      limit,
			LimitKind:  limitKindCount,
			Conditions: map[string]string{"k8s_ns": fmt.Sprintf("ns_%d", i)},
		})
	}
	config := &Config{
		Rules:          rules,
		BucketsCount:   60,
		BucketInterval: "1m",
		ThrottleField:  "k8s_pod",
		TimeField:      "time",
		DefaultLimit:   100,
	}
	test.NewConfig(config, nil)

	params := test.NewEmptyActionPluginParams()
	params.PipelineName = "verif_open_rule_prefix_wrap"
	p := &Plugin{}
	p.Start(config, params)
	defer func() {
		p.Stop()
		throttleMapsCleanup()
	}()

	now := time.Date(2024, 5, 6, 7, 8, 30, 0, time.UTC)
	p.limitersMap.setNowFn(func() time.Time { return now }, true)
	ts := now.Format(time.RFC3339Nano)

	mk := func(ns string) *pipeline.Event {
		s := fmt.Sprintf(`{"time":%q,"k8s_ns":%q,"k8s_pod":"x"}`, ts, ns)
		root, err := insaneJSON.DecodeString(s)
		if err != nil {
			t.Fatal(err)
		}
		return &pipeline.Event{Root: root, Size: len(s)}
	}

	// rule 0 (limit 1), key "x": the first event is within the limit.
	if !p.isAllowed(mk("ns_0")) {
		t.Fatalf("setup: first event of rule 0 (limit 1) was rejected")
	}
	// first event ever selected by the default rule (number 256, limit 100) for key "x".
	if !p.isAllowed(mk("not_matched")) {
		t.Errorf("REPLAY-FAIL 256 rules + default rule, key \"x\": after 1 event passed under rule 0 (limit 1, k8s_ns=ns_0), the first event {k8s_ns:not_matched,k8s_pod:x} selected by the default rule (limit 100) was rejected; rule 0 prefix %q == default rule prefix %q, so the two rules share one budget and the wrong limit is applied",
			p.rules[0].byteIdxPart, p.rules[nRules].byteIdxPart)
	}
}
