package throttle

// Open finding C16 ("the number of events let through with a timestamp in that bucket does not
// exceed the limit").  limitersMap.maintenance deletes a limiter once it has not been acquired for
// limiter_expiration, regardless of whether its buckets are still inside the retained window
// (buckets_count*bucket_interval).  The next event of the same key creates a new limiter with empty
// buckets, so the key gets a second full budget inside the same bucket interval.
// (The test waits for the real maintenance goroutine, whose tick is 1 s; it does not depend on the
// exact timing, only on the deletion having happened.)

import (
	"fmt"
	"testing"
	"time"

	"github.com/ozontech/file.d/pipeline"
	"github.com/ozontech/file.d/test"
	insaneJSON "github.com/ozontech/insane-json"
)

func TestVerifOpenLimiterExpirationInsideWindow(t *testing.T) {
	config := &Config{
		BucketsCount:      1,
		BucketInterval:    "1h",
		ThrottleField:     "k8s_pod",
		TimeField:         "time",
		DefaultLimit:      2,
		LimiterExpiration: "1ms",
	}
	test.NewConfig(config, nil)

	params := test.NewEmptyActionPluginParams()
	params.PipelineName = "verif_open_limiter_expiration"
	p := &Plugin{}
	p.Start(config, params)
	defer func() {
		p.Stop()
		throttleMapsCleanup()
	}()

	// the throttle's clock and the event time are frozen inside one 1h bucket.
	now := time.Date(2024, 5, 6, 7, 30, 0, 0, time.UTC)
	p.limitersMap.setNowFn(func() time.Time { return now }, true)
	s := fmt.Sprintf(`{"time":%q,"k8s_pod":"x"}`, now.Format(time.RFC3339Nano))
	mk := func() *pipeline.Event {
		root, err := insaneJSON.DecodeString(s)
		if err != nil {
			t.Fatal(err)
		}
		return &pipeline.Event{Root: root, Size: len(s)}
	}

	passed := 0
	for i := 0; i < 3; i++ {
		if p.isAllowed(mk()) {
			passed++
		}
	}
	if passed != 2 {
		t.Fatalf("setup: %d of 3 events passed under limit 2", passed)
	}

	// wait until the maintenance goroutine (1 s tick) has dropped the idle limiter.
	deadline := time.Now().Add(10 * time.Second)
	for {
		p.limitersMap.mu.RLock()
		_, has := p.limitersMap.lims["a:x"]
		p.limitersMap.mu.RUnlock()
		if !has {
			break
		}
		if time.Now().After(deadline) {
			t.Skip("limiter was not expired by maintenance within 10 s; nothing to observe")
		}
		time.Sleep(20 * time.Millisecond)
	}

	for i := 0; i < 3; i++ {
		if p.isAllowed(mk()) {
			passed++
		}
	}
	if passed > 2 {
		t.Errorf("REPLAY-FAIL limit 2, bucket_interval 1h, buckets_count 1, limiter_expiration 1ms, key \"x\", all events at %s with the throttle clock frozen at the same instant: %d events passed in one bucket (limit 2); the limiter was deleted by maintenance while its bucket was still current and the key got a fresh budget",
			now.Format(time.RFC3339), passed)
	}
}
