package throttle

// Open finding C16 ("Events are never rejected while their key's bucket is under its limit").
// inMemoryLimiter.isAllowed adds the event (1 or event.Size) to the bucket BEFORE comparing with the
// limit and never takes it back when the event is rejected.  Rejected events thus consume budget:
// with limit_kind size and limit 100 a rejected 150-byte event leaves the bucket at 150, and a
// following 10-byte event is rejected although 0 bytes were let through in that bucket.

import (
	"testing"
	"time"

	"github.com/ozontech/file.d/pipeline"
	insaneJSON "github.com/ozontech/insane-json"
)

func TestVerifOpenRejectedEventsCount(t *testing.T) {
	now := time.Date(2024, 5, 6, 7, 8, 30, 0, time.UTC)
	lim := newInMemoryLimiter(
		&limiterConfig{bucketsCount: 60, bucketInterval: time.Minute},
		&complexLimit{value: 100, kind: limitKindSize},
		&limitDistributionMetrics{},
		func() time.Time { return now },
	)

	mk := func(size int) *pipeline.Event {
		root, err := insaneJSON.DecodeString(`{"k":"v"}`)
		if err != nil {
			t.Fatal(err)
		}
		return &pipeline.Event{Root: root, Size: size}
	}

	passed := int64(0)
	first := lim.isAllowed(mk(150), now)
	if first {
		passed += 150
	}
	if passed > 100 {
		t.Fatalf("REPLAY-FAIL size limit 100: a 150-byte event was let through")
	}
	second := lim.isAllowed(mk(10), now)
	if !second {
		t.Errorf("REPLAY-FAIL limit_kind size, limit 100, one key, one bucket: events of 150 bytes then 10 bytes -> first passed=%v, second passed=false, but only %d bytes had been let through in the bucket (10 more keep it under the limit); the rejected 150-byte event was charged to the bucket (bucket value now %d)",
			first, passed, lim.buckets.get(lim.buckets.getCount()-1, 0))
	}
}
