package gelf

// Open finding for C19 ("the request body an output builds for a batch contains every deliverable event of that
// batch exactly once ... each as a valid JSON document in the sink's framing (... GELF envelopes)", quantified over
// fault sequences): out() -> formatEvent rewrites the events of the batch IN PLACE (renames every field to "_name",
// moves host/message/level to the GELF base fields) and the new field names alias the per-worker encodeBuf.
// When the connect/send fails, RetriableBatcher calls out() again with the SAME batch: the already rewritten events
// are rewritten once more (base fields become extra fields "_host", "_short_message", "_version", ... and the
// defaults "unknown"/"not set" are added), and because encodeBuf is reused from offset 0 the names of the first
// pass are overwritten while they are being read (names can come out garbled as well).  The payload of the retry therefore differs
// from the payload of the first attempt and no longer carries the original data under the original names.

import (
	"bytes"
	"encoding/json"
	"io"
	"net"
	"testing"
	"time"

	"github.com/ozontech/file.d/pipeline"
	"github.com/ozontech/file.d/test"
	insaneJSON "github.com/ozontech/insane-json"
)

func TestVerifOpenGelfRetrySamePayload(t *testing.T) {
	inputs := []string{
		`{"host":"hh","message":"hello","level":"info","t_message":"y","e_level":1,"some_long_field_name":"v","k":"kk"}`,
		`{"host":"h2","message":"second","level":"error","zz":"top","another_field":2}`,
	}

	// a port that refuses connections: the first attempt fails the way a real outage does
	l0, err := net.Listen("tcp", "127.0.0.1:0")
	if err != nil {
		t.Fatal(err)
	}
	deadAddr := l0.Addr().String()
	_ = l0.Close()

	// the endpoint that is up again for the retry; it records the bytes on the wire
	l1, err := net.Listen("tcp", "127.0.0.1:0")
	if err != nil {
		t.Fatal(err)
	}
	defer l1.Close()
	wire := make(chan []byte, 1)
	go func() {
		c, err := l1.Accept()
		if err != nil {
			wire <- nil
			return
		}
		b, _ := io.ReadAll(c)
		wire <- b
	}()

	config := &Config{Endpoint: deadAddr, ConnectionTimeout: "1s", WriteTimeout: "1s"}
	test.NewConfig(config, map[string]int{"gomaxprocs": 1, "capacity": 64})
	p := &Plugin{}
	p.Start(config, test.NewEmptyOutputPluginParams())

	events := make([]*pipeline.Event, 0, len(inputs))
	for _, js := range inputs {
		root, err := insaneJSON.DecodeString(js)
		if err != nil {
			t.Fatal(err)
		}
		defer insaneJSON.Release(root)
		events = append(events, &pipeline.Event{Root: root})
	}
	batch := pipeline.NewPreparedBatch(events)

	var wd pipeline.WorkerData

	// attempt 1: connection refused -> out returns an error, RetriableBatcher would retry the same batch
	if err := p.out(&wd, batch); err == nil {
		t.Fatalf("setup: the first attempt was expected to fail (endpoint %s is closed)", deadAddr)
	}
	first := append([]byte(nil), wd.(*data).outBuf...)

	// attempt 2: same batch, same worker data, the endpoint is reachable now
	p.config.Endpoint = l1.Addr().String()
	if err := p.out(&wd, batch); err != nil {
		t.Fatalf("setup: the retry was expected to be delivered: %v", err)
	}
	_ = wd.(*data).gelf.close()

	var second []byte
	select {
	case second = <-wire:
	case <-time.After(5 * time.Second):
		t.Fatal("setup: nothing arrived at the endpoint")
	}

	// what the payload of the first attempt must have been (sanity: the first pass is fine)
	firstMsgs := bytes.Split(bytes.TrimSuffix(first, []byte{0}), []byte{0})
	if len(firstMsgs) != len(inputs) {
		t.Fatalf("setup: first attempt built %d messages for %d events", len(firstMsgs), len(inputs))
	}

	if bytes.Equal(first, second) {
		return
	}

	secondMsgs := bytes.Split(bytes.TrimSuffix(second, []byte{0}), []byte{0})
	for i := range inputs {
		var got []byte
		if i < len(secondMsgs) {
			got = secondMsgs[i]
		}
		if bytes.Equal(firstMsgs[i], got) {
			continue
		}
		t.Errorf("REPLAY-FAIL gelf retry of the same batch sent a different payload for event %d %s: first attempt built %s, retry sent %s (valid JSON: %v); C19 demands each event exactly once as its GELF envelope, with its own field names, on every attempt",
			i, inputs[i], firstMsgs[i], got, json.Valid(got))
		return
	}
	t.Errorf("REPLAY-FAIL gelf retry of the same batch sent a different payload: first %q, retry %q", first, second)
}
