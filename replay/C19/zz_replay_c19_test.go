package elasticsearch

// Replay for C19 (known finding, not repaired): the bulk action line is built by
// splicing the event's index field value between quotes without JSON escaping, so
// a value containing a quote (or backslash / control character) yields an action
// line that is not valid JSON.

import (
	"encoding/json"
	"testing"

	"github.com/ozontech/file.d/pipeline"
	insaneJSON "github.com/ozontech/insane-json"
)

func TestVerifReplayC19IndexName(t *testing.T) {
	p := &Plugin{config: &Config{IndexFormat: "logs-%", IndexValues: []string{"idx"}, BatchOpType: "index"}}
	p.headerPrefix = `{"` + p.config.BatchOpType + `":{"_index":"`
	root := insaneJSON.Spawn()
	defer insaneJSON.Release(root)
	if err := root.DecodeString(`{"idx":"a\"b","m":1}`); err != nil {
		t.Fatal(err)
	}
	ev := &pipeline.Event{Root: root}
	line := p.appendIndexName(nil, ev)
	if !json.Valid(line) {
		t.Errorf("REPLAY-FAIL action line is not valid JSON: %s", line)
	}
}
