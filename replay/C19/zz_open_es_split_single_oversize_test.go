package elasticsearch

// Open finding C19 ("The request body ... contains every deliverable event of that batch exactly once ... When a
// too-large Elasticsearch request is split and resent, the parts cover the batch exactly once").
// sendSplit returns the 413 error as soon as a range of ONE event is still too large, without sending the ranges
// to the right of it, and out() maps status 413 to `return nil`: the batch counts as delivered and is committed,
// although the events after the oversized one were never put into any request.

import (
	"bytes"
	"io"
	"net/http"
	"net/http/httptest"
	"strings"
	"sync"
	"testing"

	"github.com/ozontech/file.d/pipeline"
	"github.com/ozontech/file.d/test"
	insaneJSON "github.com/ozontech/insane-json"
)

func TestVerifOpenESSplitSingleOversize(t *testing.T) {
	const maxBody = 120 // the server answers 413 to bodies above 120 bytes
	var mu sync.Mutex
	var accepted [][]byte
	requests := 0
	srv := httptest.NewServer(http.HandlerFunc(func(w http.ResponseWriter, r *http.Request) {
		body, err := io.ReadAll(r.Body)
		if err != nil {
			w.WriteHeader(http.StatusInternalServerError)
			return
		}
		mu.Lock()
		requests++
		mu.Unlock()
		if len(body) > maxBody {
			w.WriteHeader(http.StatusRequestEntityTooLarge)
			return
		}
		mu.Lock()
		accepted = append(accepted, body)
		mu.Unlock()
		w.WriteHeader(http.StatusOK)
		_, _ = w.Write([]byte(`{"errors":false}`))
	}))
	defer srv.Close()

	p := &Plugin{}
	config := &Config{
		Endpoints:   []string{srv.URL},
		IndexFormat: "idx",
		BatchSize:   "16",
		SplitBatch:  true,
	}
	test.NewConfig(config, map[string]int{"gomaxprocs": 1})
	config.IndexValues = []string{}
	p.Start(config, test.NewEmptyOutputPluginParams())
	defer p.Stop()

	docs := []string{
		`{"n":"n1"}`,
		`{"n":"BIG","pad":"` + strings.Repeat("x", 200) + `"}`, // alone above the server's limit: not deliverable
		`{"n":"n3"}`,
		`{"n":"n4"}`,
	}
	events := make([]*pipeline.Event, 0, len(docs))
	for _, d := range docs {
		root, err := insaneJSON.DecodeString(d)
		if err != nil {
			t.Fatal(err)
		}
		defer insaneJSON.Release(root)
		events = append(events, &pipeline.Event{Root: root})
	}

	// what the RetriableBatcher does: call out until it reports success (then the batch is committed)
	var wd pipeline.WorkerData
	calls := 0
	var err error
	for calls < 3 {
		calls++
		if err = p.out(&wd, pipeline.NewPreparedBatch(events)); err == nil {
			break
		}
	}

	mu.Lock()
	got := string(bytes.Join(accepted, nil))
	n := requests
	mu.Unlock()
	counts := make([]int, len(docs))
	for i, d := range docs {
		counts[i] = strings.Count(got, d+"\n")
	}
	if counts[0] != 1 || counts[2] != 1 || counts[3] != 1 {
		t.Errorf("REPLAY-FAIL elasticsearch split_batch, batch [n1, BIG(%d bytes), n3, n4], server answers 413 above %d bytes: after %d out() call(s) (last error: %v, i.e. %s) and %d requests the server accepted n1 x%d, BIG x%d, n3 x%d, n4 x%d; every deliverable event (n1, n3, n4) must be accepted exactly once",
			len(docs[1]), maxBody, calls, err, map[bool]string{true: "batch committed", false: "batch still failing"}[err == nil], n, counts[0], counts[1], counts[2], counts[3])
	}
}
