package http

// Open finding C19 ("The request body ... contains every deliverable event of that batch exactly once, in batch
// order, each as a valid JSON document in the sink's framing (file and http lines ...)").
// With `encoding: raw` RawEncoder.Encode adds nothing for an event that lacks the configured field, but
// Plugin.out appends the '\n' of that event unconditionally: the body gets an empty line, i.e. a record in the
// sink's line framing that is not a JSON document and stands for an event whose content is not carried at all.

import (
	"encoding/json"
	"io"
	"net/http"
	"net/http/httptest"
	"strings"
	"sync"
	"testing"

	"github.com/ozontech/file.d/pipeline"
	"github.com/ozontech/file.d/test"
	insaneJSON "github.com/ozontech/insane-json"
)

func TestVerifOpenHTTPRawEmptyLine(t *testing.T) {
	var mu sync.Mutex
	var bodies []string
	srv := httptest.NewServer(http.HandlerFunc(func(w http.ResponseWriter, r *http.Request) {
		b, _ := io.ReadAll(r.Body)
		mu.Lock()
		bodies = append(bodies, string(b))
		mu.Unlock()
		w.WriteHeader(http.StatusOK)
	}))
	defer srv.Close()

	p := &Plugin{}
	config := &Config{
		Endpoints: []string{srv.URL},
		BatchSize: "16",
		Encoding:  EncodingConfig{Type: EncoderTypeRaw, Params: json.RawMessage(`{"field":"message"}`)},
	}
	test.NewConfig(config, map[string]int{"gomaxprocs": 1})
	p.Start(config, test.NewEmptyOutputPluginParams())
	defer p.Stop()

	docs := []string{`{"message":"a"}`, `{"other":"no message field"}`, `{"message":{"x":1}}`}
	events := make([]*pipeline.Event, 0, len(docs))
	for _, d := range docs {
		root, err := insaneJSON.DecodeString(d)
		if err != nil {
			t.Fatal(err)
		}
		defer insaneJSON.Release(root)
		events = append(events, &pipeline.Event{Root: root})
	}
	var wd pipeline.WorkerData
	if err := p.out(&wd, pipeline.NewPreparedBatch(events)); err != nil {
		t.Fatalf("setup: out failed: %v", err)
	}

	mu.Lock()
	body := strings.Join(bodies, "")
	mu.Unlock()
	lines := strings.Split(strings.TrimSuffix(body, "\n"), "\n")
	bad := -1
	for i, l := range lines {
		if !json.Valid([]byte(l)) {
			bad = i
			break
		}
	}
	if bad >= 0 {
		t.Errorf("REPLAY-FAIL http output, encoding raw (field \"message\"), batch %v: request body %q has %d lines and line %d (%q) is not a JSON document; every line of the body must be the valid JSON record of one event (an event with nothing to send must not leave an empty record)",
			docs, body, len(lines), bad+1, lines[bad])
	}
}
