package elasticsearch

// Open finding C19 ("When a too-large Elasticsearch request is split and resent, the parts cover the batch
// exactly once").
// sendSplit keeps no record of the ranges that were already accepted.  If, after a 413 on the whole batch, the
// left half is accepted and the right half fails with a retryable status (503), out() returns the error, the
// RetriableBatcher calls out() again for the same batch, and the whole split starts from the beginning: the left
// half is accepted a second time.

import (
	"bytes"
	"io"
	"net/http"
	"net/http/httptest"
	"strings"
	"sync"
	"testing"

	"github.com/ozontech/file.d/pipeline"
	"github.com/ozontech/file.d/test"
	insaneJSON "github.com/ozontech/insane-json"
)

func TestVerifOpenESSplitRetryDuplicates(t *testing.T) {
	var mu sync.Mutex
	var accepted [][]byte
	var statuses []int
	failedOnce := false
	srv := httptest.NewServer(http.HandlerFunc(func(w http.ResponseWriter, r *http.Request) {
		body, err := io.ReadAll(r.Body)
		if err != nil {
			w.WriteHeader(http.StatusInternalServerError)
			return
		}
		status := http.StatusOK
		mu.Lock()
		switch {
		case bytes.Count(body, []byte("\n"))/2 > 2: // more than 2 events: too large
			status = http.StatusRequestEntityTooLarge
		case bytes.Contains(body, []byte(`"n3"`)) && !failedOnce: // one transient failure on the right half
			failedOnce = true
			status = http.StatusServiceUnavailable
		default:
			accepted = append(accepted, body)
		}
		statuses = append(statuses, status)
		mu.Unlock()
		w.WriteHeader(status)
		if status == http.StatusOK {
			_, _ = w.Write([]byte(`{"errors":false}`))
		}
	}))
	defer srv.Close()

	p := &Plugin{}
	config := &Config{
		Endpoints:   []string{srv.URL},
		IndexFormat: "idx",
		BatchSize:   "16",
		SplitBatch:  true,
	}
	test.NewConfig(config, map[string]int{"gomaxprocs": 1})
	config.IndexValues = []string{}
	p.Start(config, test.NewEmptyOutputPluginParams())
	defer p.Stop()

	docs := []string{`{"n":"n1"}`, `{"n":"n2"}`, `{"n":"n3"}`, `{"n":"n4"}`}
	events := make([]*pipeline.Event, 0, len(docs))
	for _, d := range docs {
		root, err := insaneJSON.DecodeString(d)
		if err != nil {
			t.Fatal(err)
		}
		defer insaneJSON.Release(root)
		events = append(events, &pipeline.Event{Root: root})
	}

	// what the RetriableBatcher does: call out for the same batch until it reports success
	var wd pipeline.WorkerData
	calls := 0
	var err error
	for calls < 5 {
		calls++
		if err = p.out(&wd, pipeline.NewPreparedBatch(events)); err == nil {
			break
		}
	}
	if err != nil {
		t.Fatalf("setup: out still failing after %d calls: %v", calls, err)
	}

	mu.Lock()
	got := string(bytes.Join(accepted, nil))
	st := append([]int(nil), statuses...)
	mu.Unlock()
	counts := make([]int, len(docs))
	exactlyOnce := true
	for i, d := range docs {
		counts[i] = strings.Count(got, d+"\n")
		if counts[i] != 1 {
			exactlyOnce = false
		}
	}
	if !exactlyOnce {
		t.Errorf("REPLAY-FAIL elasticsearch split_batch, batch [n1,n2,n3,n4], server: 413 for more than 2 events, one 503 for the first request carrying n3: response sequence %v over %d out() calls; accepted n1 x%d, n2 x%d, n3 x%d, n4 x%d; the accepted parts must cover the batch exactly once",
			st, calls, counts[0], counts[1], counts[2], counts[3])
	}
}
