package gelf

// Open finding for C19 ("each [event] as a valid JSON document in the sink's framing (... GELF envelopes), whatever
// characters the events ... contain"): formatExtraField maps every character outside [A-Za-z0-9_.-] to '-', and
// makeExtraFields renames each field without looking at the names already present.  Two distinct keys of one event
// that differ only in such a character ("a&b" and "a-b") both become "_a-b", so the GELF object carries the same key
// twice: a receiver keeps one value and silently loses the other (the envelope no longer carries the event once).

import (
	"bytes"
	"encoding/json"
	"testing"

	"github.com/ozontech/file.d/pipeline"
	"github.com/ozontech/file.d/test"
	insaneJSON "github.com/ozontech/insane-json"
)

func TestVerifOpenGelfNoDuplicateKeys(t *testing.T) {
	const input = `{"message":"m","a&b":"first","a-b":"second"}`

	config := &Config{Endpoint: "127.0.0.1:1"}
	test.NewConfig(config, map[string]int{"gomaxprocs": 1, "capacity": 64})
	p := &Plugin{}
	p.Start(config, test.NewEmptyOutputPluginParams())

	root, err := insaneJSON.DecodeString(input)
	if err != nil {
		t.Fatalf("setup: event does not decode: %v", err)
	}
	defer insaneJSON.Release(root)
	event := &pipeline.Event{Root: root}

	// exactly what out() does per event
	p.formatEvent(nil, event)
	msg, _ := event.Encode(nil)

	// walk the top-level object and count the keys
	dec := json.NewDecoder(bytes.NewReader(msg))
	if tok, err := dec.Token(); err != nil || tok != json.Delim('{') {
		t.Fatalf("REPLAY-FAIL gelf message for event %s is not a JSON object: %s", input, msg)
	}
	seen := map[string]int{}
	for dec.More() {
		tok, err := dec.Token()
		if err != nil {
			t.Fatalf("REPLAY-FAIL gelf message for event %s is not valid JSON (%v): %s", input, err, msg)
		}
		key, _ := tok.(string)
		seen[key]++
		var v json.RawMessage
		if err := dec.Decode(&v); err != nil {
			t.Fatalf("REPLAY-FAIL gelf message for event %s is not valid JSON (%v): %s", input, err, msg)
		}
	}
	for key, n := range seen {
		if n > 1 {
			t.Errorf("REPLAY-FAIL gelf message for event %s carries key %q %d times: %s; C19 demands a well-formed envelope that carries every field of the event once (distinct event keys must stay distinct)", input, key, n, msg)
		}
	}
}
