package http

// Replay canary (C19: "the request body contains every deliverable event of that batch exactly once, in batch
// order"): http output with the raw encoder.  For an event that lacks the configured field RawEncoder.Encode
// returned buf[:0] - the batch buffer truncated to nothing - so every event encoded before it was wiped from
// the request body.

import (
	"testing"

	"github.com/ozontech/file.d/pipeline"
	insaneJSON "github.com/ozontech/insane-json"
)

func TestVerifRawEncoderKeepsEarlierEvents(t *testing.T) {
	enc := newRawEncoder(&RawEncoderParams{Field: "message"})
	var buf []byte
	for _, js := range []string{`{"message":"one"}`, `{"other":"x"}`, `{"message":"three"}`} {
		root, err := insaneJSON.DecodeString(js)
		if err != nil {
			t.Fatal(err)
		}
		before := string(buf)
		buf = enc.Encode(&pipeline.Event{Root: root}, buf)
		if len(buf) < len(before) || string(buf[:len(before)]) != before {
			t.Errorf("REPLAY-FAIL encoding %s truncated what was already in the batch buffer: %q -> %q", js, before, buf)
		}
		buf = append(buf, '\n')
		insaneJSON.Release(root)
	}
}
