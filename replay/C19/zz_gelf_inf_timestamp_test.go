package gelf

// Open finding for C19 ("each [event] as a valid JSON document in the sink's framing (... GELF envelopes), whatever
// characters the events ... contain"): makeTimestampField takes a numeric timestamp field with node.AsFloat() and
// writes it back with MutateToFloat.  A number that is valid JSON but overflows float64 (1e999) parses to +Inf,
// survives the two "is it in millis?" divisions and the "in the past?" check, and is encoded as the bare token +Inf,
// so the GELF message on the wire is not JSON any more.

import (
	"encoding/json"
	"testing"

	"github.com/ozontech/file.d/pipeline"
	"github.com/ozontech/file.d/test"
	insaneJSON "github.com/ozontech/insane-json"
)

func TestVerifGelfTimestampIsJSONNumber(t *testing.T) {
	const input = `{"message":"m","ts":1e999}`
	if !json.Valid([]byte(input)) {
		t.Fatalf("setup: input is not valid JSON: %s", input)
	}

	config := &Config{Endpoint: "127.0.0.1:1", TimestampField: "ts"}
	test.NewConfig(config, map[string]int{"gomaxprocs": 1, "capacity": 64})
	p := &Plugin{}
	p.Start(config, test.NewEmptyOutputPluginParams())

	root, err := insaneJSON.DecodeString(input)
	if err != nil {
		t.Fatalf("setup: event does not decode: %v", err)
	}
	defer insaneJSON.Release(root)
	event := &pipeline.Event{Root: root}

	// exactly what out() does per event
	p.formatEvent(nil, event)
	msg, _ := event.Encode(nil)

	var m map[string]any
	if err := json.Unmarshal(msg, &m); err != nil {
		t.Fatalf("REPLAY-FAIL gelf message for event %s with timestamp_field=ts is %s, which is not valid JSON (%v); C19 demands a valid JSON document per event", input, msg, err)
	}
	if _, ok := m["timestamp"].(float64); !ok {
		t.Errorf("REPLAY-FAIL gelf message for event %s has timestamp %v, want a JSON number: %s", input, m["timestamp"], msg)
	}
}
