package gelf

// Open finding for C19 ("field renaming rules of GELF: extra fields prefixed with '_'"): formatExtraField returns
// its buffer unchanged for the empty name, so makeExtraFields renames a field whose key is "" (legal JSON) to "" -
// the GELF message carries an additional field without the underscore prefix (and with an empty name).

import (
	"bytes"
	"testing"

	"github.com/ozontech/file.d/pipeline"
	"github.com/ozontech/file.d/test"
	insaneJSON "github.com/ozontech/insane-json"
)

func TestVerifOpenGelfEmptyKeyIsPrefixed(t *testing.T) {
	const input = `{"message":"m","":"x"}`

	config := &Config{Endpoint: "127.0.0.1:1"}
	test.NewConfig(config, map[string]int{"gomaxprocs": 1, "capacity": 64})
	p := &Plugin{}
	p.Start(config, test.NewEmptyOutputPluginParams())

	root, err := insaneJSON.DecodeString(input)
	if err != nil {
		t.Fatalf("setup: %v", err)
	}
	event := &pipeline.Event{Root: root}
	p.formatEvent(nil, event) // exactly what out() does per event
	msg, _ := event.Encode(nil)

	if bytes.Contains(msg, []byte(`"":"x"`)) {
		t.Fatalf("REPLAY-FAIL gelf message for event %s carries the extra field with the key \"\" (no '_' prefix): %s", input, msg)
	}
}
