package loki

// Open finding for C19 ("the request body an output builds for a batch contains every deliverable event of that
// batch exactly once ... (Splunk / Loki / GELF envelopes)"): send() walks the events of the batch and on the first
// event whose timestamp field is not a UnixNano string returns errUnixNanoFormat before any request is made; out()
// turns exactly that error into `return nil` ("skip retries"), so the batcher commits the WHOLE batch.  The events
// of the batch with a perfectly good timestamp are never sent anywhere (no request, no retry, no dead queue).

import (
	"io"
	"net/http"
	"net/http/httptest"
	"strings"
	"sync"
	"testing"

	"github.com/ozontech/file.d/pipeline"
	"github.com/ozontech/file.d/test"
	insaneJSON "github.com/ozontech/insane-json"
)

func TestVerifOpenLokiBadTimestampKeepsOthers(t *testing.T) {
	var mu sync.Mutex
	var bodies []string
	srv := httptest.NewServer(http.HandlerFunc(func(w http.ResponseWriter, r *http.Request) {
		b, _ := io.ReadAll(r.Body)
		mu.Lock()
		bodies = append(bodies, string(b))
		mu.Unlock()
		w.WriteHeader(http.StatusNoContent)
	}))
	defer srv.Close()
	received := func() string {
		mu.Lock()
		defer mu.Unlock()
		return strings.Join(bodies, "\n")
	}

	config := &Config{
		Address:        srv.URL,
		MessageField:   "message",
		TimestampField: "ts",
		Labels:         []Label{{Label: "job", Value: "verif"}},
	}
	test.NewConfig(config, map[string]int{"gomaxprocs": 1, "capacity": 64})
	p := &Plugin{}
	p.Start(config, test.NewEmptyOutputPluginParams())

	mkBatch := func(inputs ...string) *pipeline.Batch {
		events := make([]*pipeline.Event, 0, len(inputs))
		for _, js := range inputs {
			root, err := insaneJSON.DecodeString(js)
			if err != nil {
				t.Fatalf("setup: %v", err)
			}
			events = append(events, &pipeline.Event{Root: root})
		}
		return pipeline.NewPreparedBatch(events)
	}

	// control: the good event alone is delivered
	var wd pipeline.WorkerData
	if err := p.out(&wd, mkBatch(`{"ts":"1700000000000000000","message":"control-event","a":"1"}`)); err != nil {
		t.Fatalf("setup: control batch not delivered: %v", err)
	}
	if !strings.Contains(received(), "control-event") {
		t.Fatalf("setup: control event did not reach the server: %q", received())
	}

	const good = `{"ts":"1700000000000000001","message":"deliverable-event","a":"1"}`
	const bad = `{"ts":"2023-01-01","message":"bad-ts-event","a":"2"}`
	err := p.out(&wd, mkBatch(good, bad))

	got := received()
	if n := strings.Count(got, "deliverable-event"); n != 1 {
		t.Errorf("REPLAY-FAIL loki out for batch [%s, %s] returned err=%v (nil = batch committed) and the requests sent contain the first, deliverable event %d times (all bodies: %q); C19 demands every deliverable event of the batch exactly once in the request body",
			good, bad, err, n, got)
	}
}
