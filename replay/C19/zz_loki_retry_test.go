package loki

// Open finding for C19 / C09 ("all reuse patterns ... across successive batches", retry of a failed batch): Loki's
// send() removes the timestamp and message fields from the nodes it was given (Suicide) - but those nodes are the
// events' own field nodes (MutateToNode shares the children).  After ONE failed attempt (any answer but 204) the
// events of the batch are damaged, and the retry of the same batch - which RetriableBatcher.Out performs by calling
// out() again - loops forever inside insane-json's Encode on the corrupted sibling links, appending to its buffer
// until the process is killed.

import (
	"io"
	"net/http"
	"net/http/httptest"
	"runtime"
	"strings"
	"sync"
	"testing"
	"time"

	"github.com/ozontech/file.d/pipeline"
	"github.com/ozontech/file.d/test"
	insaneJSON "github.com/ozontech/insane-json"
)

func TestVerifLokiRetryAfterFailedSend(t *testing.T) {
	var mu sync.Mutex
	var bodies []string
	srv := httptest.NewServer(http.HandlerFunc(func(w http.ResponseWriter, r *http.Request) {
		b, _ := io.ReadAll(r.Body)
		mu.Lock()
		bodies = append(bodies, string(b))
		k := len(bodies)
		mu.Unlock()
		if k == 1 {
			w.WriteHeader(http.StatusInternalServerError) // first attempt fails, every later one is accepted
			return
		}
		w.WriteHeader(http.StatusNoContent)
	}))
	defer srv.Close()

	config := &Config{
		Address:        srv.URL,
		MessageField:   "message",
		TimestampField: "ts",
		Labels:         []Label{{Label: "job", Value: "verif"}},
	}
	test.NewConfig(config, map[string]int{"gomaxprocs": 1, "capacity": 64})
	p := &Plugin{}
	p.Start(config, test.NewEmptyOutputPluginParams())

	const input = `{"a":"1","ts":"1700000000000000001","b":"2","message":"m","c":"3"}`
	root, err := insaneJSON.DecodeString(input)
	if err != nil {
		t.Fatal(err)
	}
	event := &pipeline.Event{Root: root}
	batch := pipeline.NewPreparedBatch([]*pipeline.Event{event})

	var wd pipeline.WorkerData
	err1 := p.out(&wd, batch) // answered 500: error, the retry loop will call out again with the same batch
	if err1 == nil {
		t.Fatalf("setup: first attempt was answered 500 but out returned nil")
	}
	afterFirst := event.Root.EncodeToString()
	if afterFirst != input {
		t.Errorf("REPLAY-FAIL after one failed attempt the event itself is changed: %s -> %s (this is what a retry or the dead queue gets)", input, afterFirst)
	}

	var err2 error
	done := make(chan struct{})
	go func() { err2 = p.out(&wd, batch); close(done) }()
	select {
	case <-done:
	case <-time.After(3 * time.Second):
		buf := make([]byte, 1<<16)
		buf = buf[:runtime.Stack(buf, true)]
		where := ""
		for _, g := range strings.Split(string(buf), "\n\n") {
			if strings.Contains(g, "loki.(*Plugin).send") {
				where = g
			}
		}
		mu.Lock()
		first := strings.Join(bodies, " | ")
		mu.Unlock()
		// the goroutine keeps allocating: fail hard instead of waiting for the OOM killer
		panic("REPLAY-FAIL loki out: retry of batch [" + input + "] after one 500 answer did not return within 3s (requests so far: " + first + ")\n" + where)
	}
	mu.Lock()
	defer mu.Unlock()
	if err2 != nil || len(bodies) != 2 || bodies[0] != bodies[1] {
		t.Errorf("REPLAY-FAIL retry of the same batch: err=%v, requests %q - C19 demands the same events in the retried body", err2, bodies)
	}
}
