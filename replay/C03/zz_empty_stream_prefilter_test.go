package file

// Open finding C03 ("every complete line of every watched file is delivered at least once over the two
// runs ... this holds for files carrying several streams").  Pipeline.In pre-filters lines, when antispam
// is enabled (antispam_threshold >= 0), with offsets.ByStream(string(row.Stream)); row.Stream is only
// filled in by the CRI decoder, so with every other decoder each line of the file is compared with the
// saved offset of the stream whose name is the empty string.  If such a stream exists (events whose
// stream field is "") and it was committed further than another stream, the not yet committed lines of
// that other stream are rejected after a restart and never delivered.

import (
	"fmt"
	"os"
	"path/filepath"
	"runtime"
	"sync"
	"testing"
	"time"

	"github.com/ozontech/file.d/pipeline"
	"github.com/ozontech/file.d/plugin/output/devnull"
	"github.com/ozontech/file.d/test"
	"github.com/prometheus/client_golang/prometheus"
	"go.uber.org/zap"
)

func verifOpenEmptyStreamPipeline(dir, offsetsPath string, antispam int, outFn func(e *pipeline.Event)) *pipeline.Pipeline {
	offsetFiles = make(map[string]string)
	settings := &pipeline.Settings{
		Capacity:            256,
		MaintenanceInterval: time.Second * 5,
		EventTimeout:        pipeline.DefaultEventTimeout,
		Antispam:            pipeline.AntispamSettings{Threshold: antispam},
		AvgEventSize:        2048,
		MetaCacheSize:       32,
		StreamField:         "stream",
		Decoder:             "json",
		Metric: &pipeline.MetricSettings{
			HoldDuration:        pipeline.DefaultMetricHoldDuration,
			MaxLabelValueLength: pipeline.DefaultMetricMaxLabelValueLength,
		},
	}
	p := pipeline.New(fmt.Sprintf("verif_open_empty_stream_%d", time.Now().UnixNano()), settings, prometheus.NewRegistry(), zap.NewNop())
	p.DisableParallelism()

	config := &Config{
		WatchingDir:         dir,
		OffsetsFile:         offsetsPath,
		PersistenceMode:     "async",
		MaintenanceInterval: "300ms",
		RemoveAfter:         "0",
	}
	test.NewConfig(config, map[string]int{"gomaxprocs": runtime.GOMAXPROCS(0)})
	input, _ := Factory()
	p.SetInput(&pipeline.InputPluginInfo{
		PluginStaticInfo:  &pipeline.PluginStaticInfo{Config: config},
		PluginRuntimeInfo: &pipeline.PluginRuntimeInfo{Plugin: input},
	})
	anyPlugin, outCfg := devnull.Factory()
	out := anyPlugin.(*devnull.Plugin)
	p.SetOutput(&pipeline.OutputPluginInfo{
		PluginStaticInfo:  &pipeline.PluginStaticInfo{Config: outCfg},
		PluginRuntimeInfo: &pipeline.PluginRuntimeInfo{Plugin: out},
	})
	out.SetOutFn(outFn)
	p.Start()
	return p
}

func TestVerifEmptyStreamPrefilter(t *testing.T) {
	dir := t.TempDir()
	offDir := t.TempDir()
	name := filepath.Join(dir, "a.log")
	l1 := `{"stream":"x","n":"1"}` + "\n"
	l2 := `{"stream":"","n":"2"}` + "\n"
	l3 := `{"stream":"x","n":"3"}` + "\n"
	l4 := `{"stream":"","n":"4"}` + "\n"
	l5 := `{"stream":"x","n":"5"}` + "\n" // sentinel: same stream as line 3, behind every saved offset
	if err := os.WriteFile(name, []byte(l1+l2+l3+l4+l5), 0o644); err != nil {
		t.Fatal(err)
	}
	st, err := os.Stat(name)
	if err != nil {
		t.Fatal(err)
	}
	// the state of the first run at the kill instant: stream "x" committed up to line 1, stream "" up to line 4
	// (lines 2 and 4 were acknowledged, line 3 was not)
	offsets := fmt.Sprintf("- file: %s\n  inode: %d\n  source_id: %d\n  streams:\n    x: %d\n    : %d\n",
		name, getInodeByFile(name), sourceIDByStat(st, ""), len(l1), len(l1+l2+l3+l4))
	offsetsPath := filepath.Join(offDir, "offsets.yaml")

	run := func(antispam int) []string {
		if err := os.WriteFile(offsetsPath, []byte(offsets), 0o644); err != nil {
			t.Fatal(err)
		}
		mu := sync.Mutex{}
		got := []string{}
		sentinel := make(chan struct{})
		var once sync.Once
		p := verifOpenEmptyStreamPipeline(dir, offsetsPath, antispam, func(e *pipeline.Event) {
			n := e.Root.Dig("n").AsString()
			mu.Lock()
			got = append(got, n)
			mu.Unlock()
			if n == "5" {
				once.Do(func() { close(sentinel) })
			}
		})
		defer p.Stop()
		select {
		case <-sentinel:
		case <-time.After(10 * time.Second):
			t.Fatalf("antispam_threshold=%d: the sentinel line 5 was not delivered in 10s", antispam)
		}
		time.Sleep(100 * time.Millisecond)
		mu.Lock()
		defer mu.Unlock()
		return append([]string(nil), got...)
	}

	has := func(list []string, v string) bool {
		for _, s := range list {
			if s == v {
				return true
			}
		}
		return false
	}

	// the job's loaded offsets must be what we have written (otherwise the test is void)
	if err := os.WriteFile(offsetsPath, []byte(offsets), 0o644); err != nil {
		t.Fatal(err)
	}
	off, err := newOffsetDB(offsetsPath, "").load()
	if err != nil || len(off) != 1 {
		t.Fatalf("offsets file did not load: %v %v", off, err)
	}
	for _, inode := range off {
		if v, ok := inode.streams[""]; !ok || v != int64(len(l1+l2+l3+l4)) {
			t.Fatalf("offsets file did not load the empty-named stream: %v", inode.streams)
		}
	}

	gotOff := run(-1)
	if !has(gotOff, "3") {
		t.Fatalf("control run (antispam disabled) did not deliver line 3 either: %v", gotOff)
	}
	gotOn := run(1000000)
	if !has(gotOn, "3") {
		t.Errorf("REPLAY-FAIL file a.log = x:1 \"\":2 x:3 \"\":4 x:5, saved offsets x=%d (end of line 1) \"\"=%d (end of line 4), json decoder: after the restart with antispam_threshold=1000000 the lines delivered were %v, the uncommitted line 3 of stream x was never delivered (with antispam_threshold=-1: %v); want line 3 delivered at least once",
			len(l1), len(l1+l2+l3+l4), gotOn, gotOff)
	}
}
