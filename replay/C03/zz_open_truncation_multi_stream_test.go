package file

// Open finding C03 ("After a truncation file.d keeps running, starts the file over and delivers everything
// written after the truncation", "this holds for files carrying several streams").  Event sequence numbers
// are per stream (stream.put in pipeline/stream.go), but truncateJob sets the per-job ignoreEventsLE to the
// sequence number of the LAST line read (whatever its stream) and commit compares it with events of every
// stream.  When the last line read before the truncation belongs to a short stream (B1: seq 1), a still
// in-flight event of a longer stream (A5: seq 5 > 1) is committed after the truncation: it puts the stale
// offset of the old content back for stream A, and PassEvent then discards the lines of stream A written
// after the truncation as "already written".  No restart is needed.

import (
	"fmt"
	"os"
	"path/filepath"
	"runtime"
	"strings"
	"sync"
	"testing"
	"time"

	"github.com/ozontech/file.d/pipeline"
	"github.com/ozontech/file.d/plugin/output/devnull"
	"github.com/ozontech/file.d/test"
	"github.com/prometheus/client_golang/prometheus"
	"go.uber.org/zap"
)

func verifOpenTruncStreamsPipeline(dir, offsetsPath string, antispam int, outFn func(e *pipeline.Event)) *pipeline.Pipeline {
	offsetFiles = make(map[string]string)
	settings := &pipeline.Settings{
		Capacity:            256,
		MaintenanceInterval: time.Second * 5,
		EventTimeout:        pipeline.DefaultEventTimeout,
		Antispam:            pipeline.AntispamSettings{Threshold: antispam},
		AvgEventSize:        2048,
		MetaCacheSize:       32,
		StreamField:         "stream",
		Decoder:             "json",
		Metric: &pipeline.MetricSettings{
			HoldDuration:        pipeline.DefaultMetricHoldDuration,
			MaxLabelValueLength: pipeline.DefaultMetricMaxLabelValueLength,
		},
	}
	p := pipeline.New(fmt.Sprintf("verif_open_trunc_streams_%d", time.Now().UnixNano()), settings, prometheus.NewRegistry(), zap.NewNop())
	p.DisableParallelism()

	config := &Config{
		WatchingDir:         dir,
		OffsetsFile:         offsetsPath,
		PersistenceMode:     "async",
		MaintenanceInterval: "300ms",
		RemoveAfter:         "0",
	}
	test.NewConfig(config, map[string]int{"gomaxprocs": runtime.GOMAXPROCS(0)})
	input, _ := Factory()
	p.SetInput(&pipeline.InputPluginInfo{
		PluginStaticInfo:  &pipeline.PluginStaticInfo{Config: config},
		PluginRuntimeInfo: &pipeline.PluginRuntimeInfo{Plugin: input},
	})
	anyPlugin, outCfg := devnull.Factory()
	out := anyPlugin.(*devnull.Plugin)
	p.SetOutput(&pipeline.OutputPluginInfo{
		PluginStaticInfo:  &pipeline.PluginStaticInfo{Config: outCfg},
		PluginRuntimeInfo: &pipeline.PluginRuntimeInfo{Plugin: out},
	})
	out.SetOutFn(outFn)
	p.Start()
	return p
}

func TestVerifOpenTruncationMultiStream(t *testing.T) {
	dir := t.TempDir()
	offDir := t.TempDir()
	name := filepath.Join(dir, "a.log")
	offsetsPath := filepath.Join(offDir, "offsets.yaml")

	reached := make(chan struct{})
	release := make(chan struct{})
	var reachedOnce, releaseOnce, sentinelOnce sync.Once
	sentinel := make(chan struct{})
	mu := sync.Mutex{}
	got := []string{}
	p := verifOpenTruncStreamsPipeline(dir, offsetsPath, -1, func(e *pipeline.Event) {
		n := e.Root.Dig("n").AsString()
		if n == "A5" {
			reachedOnce.Do(func() { close(reached) })
			<-release // the output holds A5: A1..A4 are committed, A5 is in flight
		}
		mu.Lock()
		got = append(got, n)
		mu.Unlock()
		if n == "new4" {
			sentinelOnce.Do(func() { close(sentinel) })
		}
	})
	defer func() {
		releaseOnce.Do(func() { close(release) })
		p.Stop()
	}()

	pad := strings.Repeat("p", 100)
	content := ""
	for i := 1; i <= 5; i++ {
		content += fmt.Sprintf(`{"stream":"A","n":"A%d","pad":"%s"}`+"\n", i, pad)
	}
	endOfA5 := int64(len(content))
	content += `{"stream":"B","n":"B1"}` + "\n"
	if err := os.WriteFile(name, []byte(content), 0o644); err != nil {
		t.Fatal(err)
	}
	select {
	case <-reached:
	case <-time.After(10 * time.Second):
		t.Fatalf("A5 did not reach the output in 10s")
	}

	st, err := os.Stat(name)
	if err != nil {
		t.Fatal(err)
	}
	jp := p.GetInput().(*Plugin).jobProvider
	jp.jobsMu.RLock()
	job := jp.jobs[sourceIDByStat(st, "")]
	jp.jobsMu.RUnlock()
	if job == nil {
		t.Fatalf("no job for %s", name)
	}

	waitFor := func(what string, cond func() bool) {
		deadline := time.Now().Add(10 * time.Second)
		for !cond() {
			if time.Now().After(deadline) {
				t.Fatalf("timeout waiting for %s", what)
			}
			time.Sleep(10 * time.Millisecond)
		}
	}
	// the whole old content (6 lines) has been read before the file is truncated
	waitFor("the old content to be read", func() bool {
		job.mu.Lock()
		defer job.mu.Unlock()
		return job.curOffset == int64(len(content))
	})

	// truncate while A5 (seq 5 of stream A) is in flight; the last line read is B1 (seq 1 of stream B)
	if err := os.Truncate(name, 0); err != nil {
		t.Fatal(err)
	}
	waitFor("the truncation to be noticed", func() bool {
		job.mu.Lock()
		defer job.mu.Unlock()
		off, _ := job.offsets.Get("A")
		return off == 0 && job.curOffset == 0
	})
	job.mu.Lock()
	ignoreLE, lastSeq := job.ignoreEventsLE, job.lastEventSeq
	job.mu.Unlock()

	// the output acknowledges the pre-truncation events now
	releaseOnce.Do(func() { close(release) })
	waitFor("A5 to leave the output", func() bool {
		mu.Lock()
		defer mu.Unlock()
		return len(got) >= 6
	})
	time.Sleep(200 * time.Millisecond)
	job.mu.Lock()
	staleA, _ := job.offsets.Get("A")
	job.mu.Unlock()

	f, err := os.OpenFile(name, os.O_APPEND|os.O_WRONLY, 0o644)
	if err != nil {
		t.Fatal(err)
	}
	_, _ = f.WriteString(`{"stream":"A","n":"new1"}` + "\n" + `{"stream":"B","n":"new2"}` + "\n" + `{"stream":"A","n":"new3"}` + "\n" + `{"stream":"B","n":"new4"}` + "\n")
	_ = f.Close()
	select {
	case <-sentinel:
	case <-time.After(10 * time.Second):
		t.Fatalf("the sentinel line new4 (stream B) was not delivered in 10s")
	}
	time.Sleep(500 * time.Millisecond)

	mu.Lock()
	delivered := append([]string(nil), got...)
	mu.Unlock()
	missing := []string{}
	for _, want := range []string{"new1", "new2", "new3", "new4"} {
		found := false
		for _, n := range delivered {
			if n == want {
				found = true
			}
		}
		if !found {
			missing = append(missing, want)
		}
	}
	if len(missing) != 0 {
		t.Errorf("REPLAY-FAIL file = A1..A5 (stream A) + B1 (stream B), truncated to 0 while A5 sat in the output, then new1(A) new2(B) new3(A) new4(B) appended: delivered %v, lines %v written after the truncation were never delivered; truncateJob set ignoreEventsLE=%d (lastEventSeq=%d, the seq of B1), the commit of A5 (seq 5) then stored offset %d for stream A of the restarted file (end of A5 in the old content = %d); want every line written after the truncation delivered",
			delivered, missing, ignoreLE, lastSeq, staleA, endOfA5)
	}
}
