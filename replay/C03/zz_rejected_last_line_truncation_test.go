package file

// Open finding C03 ("After a truncation file.d keeps running, starts the file over and delivers
// everything written after the truncation").  worker.work stores job.lastEventSeq = controller.In(...),
// and Pipeline.In returns EventSeqIDError (0) for every rejected line (blank line, decode error,
// antispam, PassEvent).  If the LAST line read before a truncation was rejected, truncateJob sets
// ignoreEventsLE = 0, so commits of still in-flight pre-truncation events are not ignored: they push
// the stream offset of the (now restarted) file back up to the old position, and PassEvent then drops
// the lines written after the truncation as "already written".

import (
	"os"
	"sync"
	"testing"
	"time"

	"github.com/ozontech/file.d/pipeline"
	"github.com/ozontech/file.d/plugin/output/devnull"
	"github.com/ozontech/file.d/test"
)

func TestVerifTruncationAfterRejectedLastLine(t *testing.T) {
	setupDirs()
	defer func() {
		_ = os.RemoveAll(filesDir)
		_ = os.RemoveAll(offsetsDir)
	}()
	offsetFiles = make(map[string]string)

	info := getInputInfo()
	cfg := info.Config.(*Config)
	cfg.MaintenanceInterval_ = 200 * time.Millisecond

	p := test.NewPipeline(nil, "passive")
	p.SetInput(info)
	anyPlugin, config := devnull.Factory()
	out := anyPlugin.(*devnull.Plugin)
	p.SetOutput(&pipeline.OutputPluginInfo{
		PluginStaticInfo:  &pipeline.PluginStaticInfo{Config: config},
		PluginRuntimeInfo: &pipeline.PluginRuntimeInfo{Plugin: out},
	})

	release := make(chan struct{})
	var once sync.Once
	releaseOnce := func() { once.Do(func() { close(release) }) }
	mu := sync.Mutex{}
	got := []string{}
	out.SetOutFn(func(e *pipeline.Event) {
		mu.Lock()
		got = append(got, e.Root.EncodeToString())
		isFirst := len(got) == 1
		mu.Unlock()
		if isFirst {
			<-release // the output holds the first event: nothing of the old content is committed yet
		}
	})
	p.Start()
	defer func() {
		releaseOnce()
		p.Stop()
	}()

	waitFor := func(what string, cond func() bool) {
		deadline := time.Now().Add(10 * time.Second)
		for !cond() {
			if time.Now().After(deadline) {
				t.Fatalf("timeout waiting for %s", what)
			}
			time.Sleep(5 * time.Millisecond)
		}
	}

	const old1 = `{"m":"old-1-xxxxxxxxxxxxxxxxxxxxxxxxxxxxxxxxxxxxxx"}`
	const old2 = `{"m":"old-2-xxxxxxxxxxxxxxxxxxxxxxxxxxxxxxxxxxxxxx"}`
	const new1 = `{"m":"new-1"}`
	file := createTempFile()
	addString(file, old1, true, false)
	addString(file, old2, true, false)
	addString(file, ``, true, true) // blank last line: rejected by Pipeline.In, which returns 0
	oldSize := int64(len(old1) + 1 + len(old2) + 1 + 1)

	plugin := p.GetInput().(*Plugin)
	var job *Job
	waitFor("old content read to EOF", func() bool {
		plugin.jobProvider.jobsMu.RLock()
		defer plugin.jobProvider.jobsMu.RUnlock()
		for _, j := range plugin.jobProvider.jobs {
			j.mu.Lock()
			done := j.isDone && j.curOffset == oldSize
			j.mu.Unlock()
			if done {
				job = j
				return true
			}
		}
		return false
	})

	// truncate to empty; wait until file.d has noticed and restarted the file
	truncateFile(file)
	waitFor("truncation detected", func() bool {
		job.mu.Lock()
		defer job.mu.Unlock()
		return job.curOffset == 0 && job.isDone
	})

	// now let the two in-flight pre-truncation events be committed
	releaseOnce()
	waitFor("pre-truncation events committed", func() bool { return p.GetEventsTotal() == 2 })

	job.mu.Lock()
	offAfter, _ := job.offsets.Get(pipeline.StreamName("not_set"))
	ignoreLE := job.ignoreEventsLE
	job.mu.Unlock()

	// content written after the truncation
	addString(file, new1, true, true)
	newSize := int64(len(new1) + 1)
	waitFor("new content read to EOF", func() bool {
		job.mu.Lock()
		defer job.mu.Unlock()
		return job.isDone && job.curOffset == newSize
	})
	// PassEvent runs synchronously inside In, so by now the line is either in the pipeline or dropped
	delivered := func() bool {
		mu.Lock()
		defer mu.Unlock()
		for _, g := range got {
			if g == new1 {
				return true
			}
		}
		return false
	}
	deadline := time.Now().Add(3 * time.Second)
	for !delivered() && time.Now().Before(deadline) {
		time.Sleep(10 * time.Millisecond)
	}

	if offAfter != 0 || !delivered() {
		mu.Lock()
		g := append([]string(nil), got...)
		mu.Unlock()
		t.Errorf("REPLAY-FAIL file = 2 JSON lines + blank last line (%d bytes) read while the output holds the first event; truncated to 0; then the 2 old events are committed; then %s is written: stream offset after the old commits = %d (want 0: file was started over; ignoreEventsLE=%d because In returned 0 for the blank line), line written after the truncation delivered = %v (delivered: %q)",
			oldSize, new1, offAfter, ignoreLE, delivered(), g)
	}
}
