package file

// Open finding C03 ("every complete line of every watched file is delivered to the output at least
// once").  Jobs and persisted offsets are keyed by sourceIDByStat(stat, symlink), which computes
// inode + (inode*8922886018542929 [+ symlink hash]) & MaxUint32.  The added low 32 bits of the
// (odd-constant) product cancel the difference for inode pairs such as (2, 2+2^31), both valid 32-bit
// inode numbers: two different files get one source id.  refreshFile then takes the second file for
// the already-known job, never opens it, and its lines are never read.

import (
	"io/fs"
	"os"
	"path/filepath"
	"strings"
	"syscall"
	"testing"
	"time"

	"github.com/ozontech/file.d/metric"
	"github.com/prometheus/client_golang/prometheus"
	"go.uber.org/zap"
)

type verifOpenStat struct {
	name string
	size int64
	ino  uint64
}

func (s verifOpenStat) Name() string       { return s.name }
func (s verifOpenStat) Size() int64        { return s.size }
func (s verifOpenStat) Mode() fs.FileMode  { return 0o600 }
func (s verifOpenStat) ModTime() time.Time { return time.Time{} }
func (s verifOpenStat) IsDir() bool        { return false }
func (s verifOpenStat) Sys() any           { return &syscall.Stat_t{Ino: s.ino} }

func TestVerifOpenSourceIDCollision(t *testing.T) {
	const inoA, inoB = uint64(2), uint64(2 + 1<<31)
	const lineA, lineB = `{"m":"line of file a"}` + "\n", `{"m":"line of file b"}` + "\n"

	dir := t.TempDir()
	fileA, fileB := filepath.Join(dir, "a.log"), filepath.Join(dir, "b.log")
	if err := os.WriteFile(fileA, []byte(lineA), 0o600); err != nil {
		t.Fatal(err)
	}
	if err := os.WriteFile(fileB, []byte(lineB), 0o600); err != nil {
		t.Fatal(err)
	}

	ctl := metric.NewCtl("verif_open", prometheus.NewRegistry(), time.Minute, 0)
	metrics := newMetricCollection(
		ctl.RegisterCounter("c1", "help"),
		ctl.RegisterCounter("c2", "help"),
		ctl.RegisterGauge("g1", "help"),
		ctl.RegisterGauge("g2", "help"),
	)
	jp := NewJobProvider(&Config{MaxFiles: 16, OffsetsFile: filepath.Join(dir, "o.yaml")}, metrics, zap.NewNop().Sugar())
	defer func() {
		for _, j := range jp.jobs {
			_ = j.file.Close()
		}
	}()

	in := &inputerMock{}
	w := &worker{}
	drain := func() { // process everything queued, then stop at the nil sentinel
		jp.jobsChan <- nil
		w.work(in, jp, 4096, zap.NewNop().Sugar())
	}

	stA := verifOpenStat{name: "a.log", size: int64(len(lineA)), ino: inoA}
	stB := verifOpenStat{name: "b.log", size: int64(len(lineB)), ino: inoB}

	// the watcher reports file a (inode 2), it is read to EOF
	jp.refreshFile(stA, fileA, "", false)
	drain()
	// the watcher reports a different file b (inode 2+2^31)
	jp.refreshFile(stB, fileB, "", false)
	drain()

	gotA, gotB := false, false
	for _, d := range in.gotData {
		gotA = gotA || d == lineA
		gotB = gotB || d == lineB
	}
	if !gotA {
		t.Fatalf("setup: the line of file a was not delivered: %q", in.gotData)
	}
	idA, idB := sourceIDByStat(stA, ""), sourceIDByStat(stB, "")
	if !gotB || idA == idB {
		t.Errorf("REPLAY-FAIL two watched files, a.log inode %d and b.log inode %d, one complete line each: source ids %d and %d (must differ), jobs created = %d (want 2), line of b.log delivered = %v (delivered: %s); the second file is taken for the already-known job and never read",
			inoA, inoB, idA, idB, len(jp.jobs), gotB, strings.ReplaceAll(strings.Join(in.gotData, "|"), "\n", `\n`))
	}
}
