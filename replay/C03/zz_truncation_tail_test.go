package file

// Replay canary (C03: "after a truncation file.d keeps running, starts the file over and delivers everything
// written after the truncation").  truncateJob reset the read position and the stream offsets but kept job.tail,
// the held-back unterminated tail of the OLD content: the first line written after the truncation was delivered
// glued onto that stale prefix (undecodable as JSON, i.e. lost).  Probe written by an independent seeding
// sub-agent, adopted here.

import (
	"os"
	"path/filepath"
	"testing"
	"time"

	"github.com/ozontech/file.d/metric"
	"github.com/prometheus/client_golang/prometheus"
	"github.com/stretchr/testify/require"
	"go.uber.org/zap"
)

// Probe A: partial line left in job.tail survives a truncation.
func TestVerifTruncationDropsStaleTail(t *testing.T) {
	dir := t.TempDir()
	logFile := filepath.Join(dir, "a.log")
	require.NoError(t, os.WriteFile(logFile, []byte(`{"m":"complete old line"}`+"\n"+`{"m":"partial old line without newl`), 0o600))

	ctl := metric.NewCtl("probe", prometheus.NewRegistry(), time.Minute, 0)
	metrics := newMetricCollection(
		ctl.RegisterCounter("c1", "help"),
		ctl.RegisterCounter("c2", "help"),
		ctl.RegisterGauge("g1", "help"),
		ctl.RegisterGauge("g2", "help"),
	)
	jp := NewJobProvider(&Config{MaxFiles: 16, OffsetsFile: filepath.Join(dir, "o.yaml")}, metrics, zap.NewNop().Sugar())

	f, err := os.Open(logFile)
	require.NoError(t, err)
	stat, err := f.Stat()
	require.NoError(t, err)
	jp.addJob(f, stat, logFile, "")
	job := jp.jobs[sourceIDByStat(stat, "")]

	in := &inputerMock{}
	w := &worker{}
	runOnce := func() {
		jp.jobsChan <- nil
		w.work(in, jp, 4096, zap.NewNop().Sugar())
	}
	runOnce()
	t.Logf("after first read: delivered=%q tail=%q", in.gotData, job.tail)

	// truncate + write new complete line
	require.NoError(t, os.WriteFile(logFile, []byte(`{"m":"new"}`+"\n"), 0o600))

	// maintenance notices size != offset and resumes
	require.Equal(t, maintenanceResultResumed, jp.maintenanceJob(job))
	runOnce()
	t.Logf("after truncation detection: curOffset=%d tail=%q", job.curOffset, job.tail)
	require.Equal(t, maintenanceResultResumed, jp.maintenanceJob(job))
	runOnce()
	t.Logf("delivered=%q", in.gotData)
	found := false
	for _, d := range in.gotData {
		if d == `{"m":"new"}`+"\n" {
			found = true
		}
	}
	if !found {
		t.Fatalf("REPLAY-FAIL the first line written after the truncation was not delivered as written: %q", in.gotData)
	}
}

