package doif

// Open finding C14 ("whether an action is applied is exactly the documented meaning of its selector").
// pipeline/doif/README.md (field op node): "Array and object values are considered as not matched".
// eventData.Get (event_data.go) returns a one-byte sentinel make([]byte, 1) == "\x00" for arrays and objects instead
// of "no value", and fieldOpNode.Check compares that byte like a string value: every rule that a one-byte / any string
// satisfies (regex ".*", regex "^.$", prefix "", suffix "", contains "", equal "\x00") matches object and array fields.

import (
	"encoding/json"
	"testing"

	insaneJSON "github.com/ozontech/insane-json"
)

func TestVerifOpenDoIfContainerFieldOps(t *testing.T) {
	eval := func(rule, event string) bool {
		var m map[string]any
		if err := json.Unmarshal([]byte(rule), &m); err != nil {
			t.Fatal(err)
		}
		checker, err := NewFromMap(m)
		if err != nil {
			t.Fatalf("rule %s: %v", rule, err)
		}
		root, err := insaneJSON.DecodeString(event)
		if err != nil {
			t.Fatal(err)
		}
		defer insaneJSON.Release(root)
		return checker.Check(NewEventData(root))
	}

	rules := []string{
		`{"op":"regex","field":"f","values":[".*"]}`,
		`{"op":"regex","field":"f","values":["^.$"]}`,
		`{"op":"prefix","field":"f","values":[""]}`,
		`{"op":"suffix","field":"f","values":[""]}`,
		`{"op":"contains","field":"f","values":[""]}`,
		`{"op":"equal","field":"f","values":["\u0000"]}`,
	}
	for _, event := range []string{`{"f":{"a":1}}`, `{"f":[1,2]}`} {
		for _, rule := range rules {
			if eval(rule, event) {
				t.Errorf("REPLAY-FAIL do_if %s on event %s = true; the documented semantics is that array and object values are considered as not matched (the container is compared as the one-byte sentinel \"\\x00\")", rule, event)
			}
		}
	}
}
