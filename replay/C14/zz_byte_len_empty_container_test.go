package doif

// Open finding C14 ("whether an action is applied is exactly the documented meaning of its selector": byte_len_cmp
// "compares field length in bytes" with the documented cmp_op).
// getNodeBytesSize / getNodeFieldsBytesSize (len_cmp_op.go) add "len(elements) - 1" for the commas; for an empty array
// or object this is -1, so [] and {} measure 1 byte instead of 2 and every value that contains an empty container is
// measured one byte short per empty container ([{}] measures 3, not 4), while non-empty containers are exact.

import (
	"fmt"
	"testing"

	insaneJSON "github.com/ozontech/insane-json"
)

func TestVerifDoIfByteLenEmptyContainer(t *testing.T) {
	measure := func(event string, n int) bool {
		checker, err := NewFromMap(map[string]any{"op": "byte_len_cmp", "field": "f", "cmp_op": "eq", "value": n})
		if err != nil {
			t.Fatal(err)
		}
		root, err := insaneJSON.DecodeString(event)
		if err != nil {
			t.Fatal(err)
		}
		defer insaneJSON.Release(root)
		return checker.Check(NewEventData(root))
	}

	for _, val := range []string{`[]`, `{}`, `[{}]`, `{"a":[]}`, `[1,2]`, `{"a":1}`} {
		event := fmt.Sprintf(`{"f":%s}`, val)
		want := len(val)
		if !measure(event, want) {
			got := -1
			for n := 0; n < 32; n++ {
				if measure(event, n) {
					got = n
					break
				}
			}
			t.Errorf("REPLAY-FAIL do_if byte_len_cmp field f eq %d on event %s = false although the value %s is %d bytes long (it matches eq %d instead); empty containers are measured one byte short",
				want, event, val, want, got)
		}
	}
}
