package doif

// Open finding C14 ("exactly the documented meaning of its selector ... for all events including
// multi-byte text", case_sensitive:false = compare after converting to lower letters).
// NewFieldOpNode takes minValLen/maxValLen from the ORIGINAL values but buckets/stores the LOWERED
// values, and fieldOpNode.Check compares byte lengths (minValLen pre-check, valuesBySize lookup)
// BEFORE lower-casing the event value.  When lower-casing changes the UTF-8 length (U+0130 "İ" 2 bytes
// -> "i" 1 byte; U+023A "Ⱥ" 2 bytes -> U+2C65 "ⱥ" 3 bytes) equal/prefix/contains miss values that
// are identical to, or differ only in case from, the event value.

import (
	"bytes"
	"testing"

	insaneJSON "github.com/ozontech/insane-json"
)

func TestVerifOpenCaseInsensitiveMultiByte(t *testing.T) {
	cases := []struct {
		op, value, field string
	}{
		{"equal", "İ", "İ"},      // value and event are byte-identical
		{"prefix", "ⱥbc", "ȺBC"}, // differ only in letter case
		{"contains", "ⱥbc", "ȺBC"},
		{"suffix", "ⱥbc", "ȺBC"},
	}
	for _, c := range cases {
		// the documented meaning: compare the lower-cased forms
		lv, lf := bytes.ToLower([]byte(c.value)), bytes.ToLower([]byte(c.field))
		var want bool
		switch c.op {
		case "equal":
			want = bytes.Equal(lf, lv)
		case "prefix":
			want = bytes.HasPrefix(lf, lv)
		case "suffix":
			want = bytes.HasSuffix(lf, lv)
		case "contains":
			want = bytes.Contains(lf, lv)
		}

		node, err := NewFieldOpNode(c.op, "f", false, [][]byte{[]byte(c.value)})
		if err != nil {
			t.Fatal(err)
		}
		root, err := insaneJSON.DecodeString(`{"f":"` + c.field + `"}`)
		if err != nil {
			t.Fatal(err)
		}
		got := node.Check(NewEventData(root))
		insaneJSON.Release(root)
		if got != want {
			t.Errorf("REPLAY-FAIL op %s, case_sensitive:false, values [%q] on event {\"f\":%q}: got %v, want %v (lower-cased value %q vs lower-cased field %q); byte lengths are compared before lower-casing (value %d bytes, lowered %d bytes; field %d bytes, lowered %d bytes)",
				c.op, c.value, c.field, got, want, lv, lf, len(c.value), len(lv), len(c.field), len(lf))
		}
	}
}
