package fd

// Open finding C14 ("whether an action is applied to an event is exactly the documented meaning of its selector: for
// match_fields the and / or ... combination of exact, prefix and regexp tests").
// extractConditions (fd/util.go) handles a string value and a list value; an entry whose value is anything else
// (number, bool, object, null - e.g. `code: 500` written without quotes in YAML) falls through both branches and is
// dropped without an error, whereas a non-string inside a list is an error. The action then runs with fewer
// conditions than configured; with match_mode and and only such entries it applies to every event.

import (
	"testing"

	"github.com/bitly/go-simplejson"
)

func TestVerifMatchFieldsNonStringDropped(t *testing.T) {
	const in = `{"code":500,"ok":true,"svc":"a"}`
	j, err := simplejson.NewJson([]byte(in))
	if err != nil {
		t.Fatal(err)
	}
	conds, err := extractConditions(j)
	if err != nil {
		return // refusing the configuration is fine
	}
	if len(conds) != 3 {
		fields := []string{}
		for _, c := range conds {
			fields = append(fields, c.Field[0])
		}
		t.Fatalf("REPLAY-FAIL extractConditions(match_fields %s) returned no error and %d condition(s) %v; the entries code and ok were dropped silently, so the action is selected by fewer tests than configured (want 3 conditions or an error)", in, len(conds), fields)
	}
}
