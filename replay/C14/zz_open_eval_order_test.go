package doif

// Open finding C14 ("The decision depends only on the event and the rule, not on evaluation
// short-cuts, value ordering or earlier events"; do_if `or` is the documented boolean or).
// Field ops read the value with AsBytes/AsString, which unescapes a lazily "escaped" string node in
// place; byte_len_cmp on the enclosing object (getNodeBytesSize) measures an escaped string with its
// escape bytes and quotes but an already unescaped one as len(unescaped)+2.  So the byte length of the
// same field of the same event differs depending on whether a sibling operand looked at it first:
// or(A, B) and or(B, A) give different answers on one event.

import (
	"encoding/json"
	"testing"

	insaneJSON "github.com/ozontech/insane-json"
)

func TestVerifOpenDoIfOrOperandOrder(t *testing.T) {
	const event = `{"a":{"b":"x\ny"}}` // the value of "a" is the 12 bytes {"b":"x\ny"}
	const equalOp = `{"op":"equal","field":"a.b","values":["zzz"]}`

	eval := func(rule string) bool {
		var m map[string]any
		if err := json.Unmarshal([]byte(rule), &m); err != nil {
			t.Fatal(err)
		}
		checker, err := NewFromMap(m)
		if err != nil {
			t.Fatal(err)
		}
		root, err := insaneJSON.DecodeString(event) // a fresh copy of the event for every evaluation
		if err != nil {
			t.Fatal(err)
		}
		defer insaneJSON.Release(root)
		return checker.Check(NewEventData(root))
	}

	for _, n := range []string{"11", "12"} {
		lenOp := `{"op":"byte_len_cmp","field":"a","cmp_op":"eq","value":` + n + `}`
		lenAlone := eval(lenOp)
		equalAlone := eval(equalOp)
		want := lenAlone || equalAlone
		ruleEL := `{"op":"or","operands":[` + equalOp + `,` + lenOp + `]}`
		ruleLE := `{"op":"or","operands":[` + lenOp + `,` + equalOp + `]}`
		gotEL, gotLE := eval(ruleEL), eval(ruleLE)
		if gotEL != gotLE || gotEL != want {
			t.Errorf("REPLAY-FAIL event %s: or(equal a.b [zzz], byte_len_cmp a eq %s) = %v but or(byte_len_cmp a eq %s, equal a.b [zzz]) = %v (operands alone: equal=%v, byte_len_cmp=%v, so both must be %v); the result depends on the operand order because evaluating `equal` unescapes a.b in place and changes the measured byte length of a",
				event, n, gotEL, n, gotLE, equalAlone, lenAlone, want)
		}
	}
}
