package pipeline

// Replay canary for C14: pipeline/README.md "Match modes / And" example
// (exact match on k8s_namespace AND regexp match on k8s_pod) - on the pinned tree
// a regexp condition under match_mode: and never matched.

import (
	"regexp"
	"testing"
)

func TestVerifReplayC14(t *testing.T) {
	conds := MatchConditions{
		{Field: []string{"k8s_namespace"}, Values: []string{"payment", "tarifficator"}},
		{Field: []string{"k8s_pod"}, Regexp: regexp.MustCompile(`^payment-api.*`)},
	}
	cases := []struct {
		log  string
		want bool
	}{
		{`{"k8s_namespace": "payment", "k8s_pod":"payment-api-abcd"}`, true},
		{`{"k8s_namespace": "tarifficator", "k8s_pod":"payment-api"}`, true},
		{`{"k8s_namespace": "payment-tarifficator", "k8s_pod":"payment-api"}`, false},
		{`{"k8s_namespace": "tarifficator", "k8s_pod":"no-payment-api"}`, false},
	}
	for _, c := range cases {
		proc := processor{
			busyActions: []bool{false},
			actionInfos: []*ActionPluginStaticInfo{{MatchConditions: conds, MatchMode: MatchModeAnd}},
		}
		event := newEvent()
		if err := event.Root.DecodeString(c.log); err != nil {
			t.Fatal(err)
		}
		if got := proc.isMatch(0, event); got != c.want {
			t.Errorf("REPLAY-FAIL match_mode and, README example %s: got %v want %v", c.log, got, c.want)
		}
	}
}
