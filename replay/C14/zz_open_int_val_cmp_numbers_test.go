package doif

// Open finding C14 ("whether an action is applied is exactly the documented meaning of its selector": int_val_cmp with
// the documented cmp_op table lt < , ge >= , eq == ...; "the decision depends only on the event and the rule").
// lenCmpOpNode.Check (len_cmp_op.go, intValCmpOp) takes node.AsInt() (which rounds non-integers: 0.6 -> 1, so
// `0.6 eq 1` and `0.6 lt 5` are true) and then treats a result of 0 as "not a number" unless the text is exactly "0".
// So numbers that round / evaluate to 0 in another spelling (0.4, -0, 0.0) satisfy no comparison at all - neither lt 5
// nor ge 5 - and a number beyond int64 (decodeInt64 overflow gives 0) is not "gt 5".

import (
	"fmt"
	"testing"

	insaneJSON "github.com/ozontech/insane-json"
)

func TestVerifOpenDoIfIntValCmpNumbers(t *testing.T) {
	check := func(val, cmpOp string, n int) bool {
		checker, err := NewFromMap(map[string]any{"op": "int_val_cmp", "field": "f", "cmp_op": cmpOp, "value": n})
		if err != nil {
			t.Fatal(err)
		}
		root, err := insaneJSON.DecodeString(fmt.Sprintf(`{"f":%s}`, val))
		if err != nil {
			t.Fatal(err)
		}
		defer insaneJSON.Release(root)
		return checker.Check(NewEventData(root))
	}

	// premise: non-integer numbers are accepted and rounded (so "non-integers never match" is not the semantics)
	if !check("0.6", "lt", 5) || !check("0.6", "eq", 1) || !check("1.4", "eq", 1) {
		t.Skip("premise changed: 0.6 lt 5 / 0.6 eq 1 / 1.4 eq 1 are no longer all true")
	}

	for _, c := range []struct {
		val, op string
		n       int
		want    bool
	}{
		// want holds under exact, rounded and truncated reading of the number alike
		{"0.4", "lt", 5, true},
		{"0.4", "ge", 5, false},
		{"0.4", "eq", 0, true}, // rounded like 0.6 -> 1 and 1.4 -> 1
		{"-0", "lt", 5, true},
		{"-0", "eq", 0, true},
		{"0.0", "eq", 0, true},
		{"99999999999999999999", "gt", 5, true},
		{"99999999999999999999", "ne", 5, true},
	} {
		if got := check(c.val, c.op, c.n); got != c.want {
			t.Errorf("REPLAY-FAIL do_if int_val_cmp field f %s %d on event {\"f\":%s} = %v, want %v (while 0.6 lt 5, 0.6 eq 1 and 1.4 eq 1 are true): a number that evaluates to 0 but is not spelled \"0\", or overflows int64, satisfies no comparison",
				c.op, c.n, c.val, got, c.want)
		}
	}
}
