package doif

// Open finding C14 ("whether an action is applied is exactly the documented meaning of its selector": ts_cmp compares
// the field's timestamp with `value` by the documented cmp_op, lt meaning <).
// tsCmpOpNode.Check (ts_cmp_op.go) compares timeVal.UnixNano(); UnixNano is undefined (wraps around) for instants
// outside 1678-2262, so a parsable RFC3339 timestamp in year 1600 is not "lt 2026-01-01" and one in year 2300 is not
// "gt 2026-01-01" (the README example discards everything LESS than the value).

import (
	"testing"

	insaneJSON "github.com/ozontech/insane-json"
)

func TestVerifDoIfTsCmpOutsideUnixNanoRange(t *testing.T) {
	check := func(ts, cmpOp string) bool {
		checker, err := NewFromMap(map[string]any{
			"op": "ts_cmp", "field": "ts", "cmp_op": cmpOp, "value": "2026-01-01T00:00:00Z", "format": "rfc3339nano",
		})
		if err != nil {
			t.Fatal(err)
		}
		root, err := insaneJSON.DecodeString(`{"ts":"` + ts + `"}`)
		if err != nil {
			t.Fatal(err)
		}
		defer insaneJSON.Release(root)
		return checker.Check(NewEventData(root))
	}
	// premise: timestamps inside the range behave
	if !check("2000-01-01T00:00:00Z", "lt") || !check("2100-01-01T00:00:00Z", "gt") {
		t.Fatal("premise: in-range timestamps do not compare as expected")
	}
	for _, c := range []struct {
		ts, op string
		want   bool
	}{
		{"1600-01-01T00:00:00Z", "lt", true},
		{"1600-01-01T00:00:00Z", "ge", false},
		{"2300-01-01T00:00:00Z", "gt", true},
		{"2300-01-01T00:00:00Z", "le", false},
	} {
		if got := check(c.ts, c.op); got != c.want {
			t.Errorf("REPLAY-FAIL do_if ts_cmp field ts %s 2026-01-01T00:00:00Z on event {\"ts\":%q} = %v, want %v; the comparison goes through Time.UnixNano, which wraps around outside 1678..2262",
				c.op, c.ts, got, c.want)
		}
	}
}
