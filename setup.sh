#!/bin/sh
# builds govc offline with the go1.25.5 toolchain /repo itself needs
set -e
. /verif/env.sh
cd /verif/govc
go build -o /verif/bin/govc .
